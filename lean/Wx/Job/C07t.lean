import Wx.Job.C08t
/-! C07, the deadline of a graceful control's ticket: while the job task is alive, an armed grace timer has not expired
    unnoticed — the clock never shows more than its deadline. Together with `c07_noLost` (a flag is queued, raised, or held
    by the timer / on_end / the restart slot) this is "the ticket of a graceful stop resolves no later than the earlier of
    the process exiting and the grace period expiring". -/
namespace Jm

def TimerFresh (s : St) : Prop := s.alive = true → ∀ tm, s.timer = some tm → s.now ≤ tm.until_

theorem expired_timer_turns {s : St} (hf7 : s.cfg.f7 = true) (hal : s.alive = true) {tm : Timer} (htm : s.timer = some tm)
    (he : tm.until_ ≤ s.now) : turns s ≠ [] := by
  have hc := timer_fires s tm hf7 htm he
  have hne : turnCandidates s ≠ [] := by
    unfold turnCandidates
    rw [hc]
    simp [takeFrom, htm]
  unfold turns
  simp only [hal, Bool.not_true, Bool.false_eq_true, if_false]
  cases h : turnCandidates s with
  | nil => exact absurd h hne
  | cons a l => simp

theorem tf_turns {s : St} (h : TimerFresh s) : ∀ s' ∈ turns s, TimerFresh s' := by
  intro x hx
  unfold turns at hx
  split at hx
  · cases hx
  · split at hx
    · unfold closedOutcome at hx
      split at hx
      · split at hx
        · simp only [List.mem_singleton] at hx; subst hx
          intro hal; rw [raise_alive] at hal; cases hal
        · simp only [List.mem_singleton] at hx; subst hx
          intro hal; cases hal
      · cases hx
    · unfold turnCandidates at hx
      rcases List.mem_append.1 hx with hx | hx
      · split at hx
        · simp only [List.mem_singleton] at hx; subst hx
          intro _ tm htm; rw [waitBranch_timer] at htm; cases htm
        · cases hx
      · obtain ⟨src, hsrc, hs⟩ := List.mem_filterMap.1 hx
        cases ht : takeFrom s src with
        | none => simp [ht] at hs
        | some p =>
          obtain ⟨m, s1⟩ := p
          simp only [ht] at hs
          injection hs with hs; subst hs
          obtain ⟨hal1, hnow1, _, _, _⟩ := takeFrom_deadline ht hsrc
          obtain ⟨_, _, _, hsrc'⟩ := takeFrom_grace ht
          intro hal tm htm
          have hnow : (handle { s1 with parked := false } m).now = s.now := ((ext_handle _ m).now).trans hnow1
          rw [hnow]
          rw [handle_alive] at hal
          have hal2 : s.alive = true := by
            have : ({ s1 with parked := false } : St).alive = true := by
              cases hc : m.ctl <;> simp only [hc] at hal <;> first | exact hal | cases hal
            exact hal1 ▸ this
          rw [handle_timer] at htm
          have hs2now : ({ s1 with parked := false } : St).now = s.now := hnow1
          have hold : ∀ tm', ({ s1 with parked := false } : St).timer = some tm' → s.now ≤ tm'.until_ := by
            intro tm' h'
            rcases hsrc' with ⟨_, hn, _⟩ | ⟨_, he, _⟩
            · rw [show ({ s1 with parked := false } : St).timer = none from hn] at h'; cases h'
            · rw [show ({ s1 with parked := false } : St).timer = s.timer from he] at h'; exact h hal2 tm' h'
          split at htm
          · simp only [Option.some.injEq] at htm; subst htm; simp only [hs2now]; omega
          · simp only [Option.some.injEq] at htm; subst htm; simp only [hs2now]; omega
          · exact hold tm htm

theorem timerFresh_simInv : SimInv3 (fun x => x.st.cfg = Fixes.all ∧ TimerFresh x.st) (fun _ _ => True) where
  turns := fun x h s' hs' => ⟨(turns_cfg s' hs').trans h.1, tf_turns h.2 s' hs'⟩
  park := fun x h => by
    have hq := quiet_park x.st
    refine ⟨hq.1.cfg.trans h.1, ?_⟩
    intro hal tm htm
    have e1 : (park x.st).alive = x.st.alive := by unfold park; split <;> rfl
    have e2 : (park x.st).now = x.st.now := by unfold park; split <;> rfl
    rw [e2]; exact h.2 (e1 ▸ hal) tm (hq.1.timer ▸ htm)
  drain := fun x h => by
    have hq := quiet_drainPolls x.st
    refine ⟨hq.1.cfg.trans h.1, ?_⟩
    intro hal tm htm
    have e1 : (drainPolls x.st).alive = x.st.alive := by unfold drainPolls; rw [foldl_poll_alive]
    have e2 : (drainPolls x.st).now = x.st.now := by unfold drainPolls; exact (ext_foldl_poll _ _).now
    rw [e2]; exact h.2 (e1 ▸ hal) tm (hq.1.timer ▸ htm)
  tick := fun x t h hidle hle => by
    refine ⟨h.1, ?_⟩
    intro hal tm htm
    have hal' : x.st.alive = true := hal
    have htm' : x.st.timer = some tm := htm
    have hf7 : x.st.cfg.f7 = true := by rw [h.1]; rfl
    by_cases hlt : x.st.now < tm.until_
    · exact hle tm htm' hlt
    · exact absurd hidle (expired_timer_turns hf7 hal' htm' (by omega))
  close := fun x h => ⟨h.1, fun hal tm htm => h.2 hal tm htm⟩
  cancel := fun x aw h => by
    unfold cancelSend
    simp only []
    split
    · exact ⟨h.1, fun hal tm htm => h.2 hal tm htm⟩
    · exact h
  sendOne := fun x p c _ h => by
    unfold sendOne
    simp only []
    exact ⟨by cases p <;> exact h.1, fun hal tm htm => by
      cases p <;> exact h.2 hal tm htm⟩
  finish := fun x aw h => by
    unfold finishSend
    simp only []
    split
    · let s0 : St := { x.st with waiters := x.st.waiters ++ [{ id := x.nextWaiter, done := x.nextFlag - 1 }] }
      have hq := quiet_pollWaiter s0 x.nextWaiter
      refine ⟨hq.1.cfg.trans h.1, ?_⟩
      intro hal tm htm
      have e1 : (pollWaiter s0 x.nextWaiter).alive = x.st.alive := pollWaiter_alive s0 _
      have e2 : (pollWaiter s0 x.nextWaiter).now = x.st.now := (ext_pollWaiter s0 _).now
      show (pollWaiter s0 x.nextWaiter).now ≤ tm.until_
      rw [e2]; exact h.2 (e1 ▸ hal) tm (by rw [← hq.1.timer]; exact htm)
    · exact h
  clone := fun x f h => by
    let s0 : St := { x.st with waiters := x.st.waiters ++ [{ id := x.nextWaiter, done := f }] }
    have hq := quiet_pollWaiter s0 x.nextWaiter
    refine ⟨hq.1.cfg.trans h.1, ?_⟩
    intro hal tm htm
    have e1 : (pollWaiter s0 x.nextWaiter).alive = x.st.alive := pollWaiter_alive s0 _
    have e2 : (pollWaiter s0 x.nextWaiter).now = x.st.now := (ext_pollWaiter s0 _).now
    show (pollWaiter s0 x.nextWaiter).now ≤ tm.until_
    rw [e2]; exact h.2 (e1 ▸ hal) tm (by rw [← hq.1.timer]; exact htm)

/-- **C07, the grace deadline** — for every behaviour script, every operation script and every race resolution: in every
    reachable state of a live job task an armed grace timer has not expired — the clock shows at most its deadline -/
theorem c07_timer_fresh (behs : List Beh) (ops : List Op) :
    ∀ y ∈ runOps { st := { cfg := Fixes.all, behs := behs, hookSet := true, parked := true } } ops,
      y.st.alive = true → ∀ tm, y.st.timer = some tm → y.st.now ≤ tm.until_ := by
  intro y hy
  have h0 : TimerFresh ({ cfg := Fixes.all, behs := behs, hookSet := true, parked := true } : St) := by
    intro _ tm htm; cases htm
  exact (timerFresh_simInv.runOps ops (fun o _ => by cases o <;> simp [OpOkFor2])
    (x := { st := { cfg := Fixes.all, behs := behs, hookSet := true, parked := true } }) ⟨rfl, h0⟩ y hy).2

/-- **a graceful control's ticket by its deadline**: every flag ever issued is still queued, already raised, waiting for
    the end of the process (wait-for-end), or held by a grace timer whose deadline has not passed — so once a graceful
    stop / restart has been taken from the queue, its ticket is resolved whenever the clock shows more than the deadline -/
theorem c07_ticket_by_deadline (behs : List Beh) (ops : List Op) (hok : ∀ o ∈ ops, OpOk o) :
    ∀ y ∈ runOps { st := { cfg := Fixes.all, behs := behs, hookSet := true, parked := true } } ops,
      y.st.alive = true → ∀ f ∈ y.st.issued,
        f ∈ y.st.pending ∨ y.st.isRaised f = true ∨ f ∈ y.st.onEnd ∨
        ∃ tm, y.st.timer = some tm ∧ tm.done = f ∧ y.st.now ≤ tm.until_ := by
  intro y hy hal f hf
  obtain ⟨hnl, hcp⟩ := c07_noLost behs ops hok y hy
  have htf := c07_timer_fresh behs ops y hy hal
  rcases hnl f hf with hacc | hx
  · rcases hacc with h | h | h
    · exact Or.inl h
    · exact Or.inr (Or.inl h)
    · unfold St.held at h
      simp only [List.mem_append] at h
      rcases h with (h | h) | h
      · cases htm : y.st.timer with
        | none => simp [htm, timerFlag] at h
        | some tm =>
          simp [htm, timerFlag] at h
          exact Or.inr (Or.inr (Or.inr ⟨tm, rfl, h.symm, htf tm htm⟩))
      · exact Or.inr (Or.inr (Or.inl h))
      · have : y.st.onEndRestart = some f := by
          cases ho : y.st.onEndRestart with
          | none => simp [ho] at h
          | some g => simp [ho] at h; rw [h]
        obtain ⟨tm, htm, _, hd⟩ := hcp.1 f this
        exact Or.inr (Or.inr (Or.inr ⟨tm, htm, hd, htf tm htm⟩))
  · cases hx

#print axioms c07_ticket_by_deadline
end Jm
