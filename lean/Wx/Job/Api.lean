import Wx.Job.Sim
import Wx.Pure.Gen.JobApi
/-! The public `Job` API as the job model sees it: which controls each method sends, at which priority.
    `Jm.Gen.jobApi` is regenerated from crates/supervisor/src/job/job.rs on every run; `api_generated` ties
    the table the drivers use (`apiOf`) to it, and `jobApi_documented` ties it to the documented table. -/
namespace Jm

/-- one call of the public API (parameters that do not influence which controls are sent are kept abstract) -/
inductive ApiCall
  | start | stop | stopWithSignal (sig : Sig) (grace : Nat) | restart | restartWithSignal (sig : Sig) (grace : Nat)
  | tryRestart | tryRestartWithSignal (sig : Sig) (grace : Nat) | signal (sig : Sig)
  | toWait | delete | deleteNow | run (id : Nat) | setErrorHandler | unsetErrorHandler | setSpawnHook | unsetSpawnHook
  /-- the async variants: the closure returns a future that the job task awaits before going on; the state change is the
      one of the sync variant, so the model sends the same control -/
  | runAsync (id : Nat) | setAsyncErrorHandler | setSpawnAsyncHook
  deriving Repr, DecidableEq

/-- `Job::<method>` → (priority, controls in order) — the table the script drivers use -/
def apiOf : ApiCall → Prio × List Ctl
  | .start => (.normal, [.start])
  | .stop => (.normal, [.stop])
  | .stopWithSignal g ms => (.normal, [.gracefulStop g ms])
  | .restart => (.normal, [.stop, .start])
  | .restartWithSignal g ms => (.normal, [.gracefulStop g ms, .start])
  | .tryRestart => (.normal, [.tryRestart])
  | .tryRestartWithSignal g ms => (.normal, [.tryGracefulRestart g ms])
  | .signal g => (.normal, [.signal g])
  | .toWait => (.high, [.nextEnding])
  | .delete => (.normal, [.stop, .delete])
  | .deleteNow => (.urgent, [.stop, .delete])
  | .run id => (.normal, [.func id])
  | .setErrorHandler => (.normal, [.setErr])
  | .unsetErrorHandler => (.normal, [.unsetErr])
  | .setSpawnHook => (.normal, [.setHook])
  | .unsetSpawnHook => (.normal, [.unsetHook])
  | .runAsync id => (.normal, [.func id])
  | .setAsyncErrorHandler => (.normal, [.setErr])
  | .setSpawnAsyncHook => (.normal, [.setHook])

def isAsync : ApiCall → Bool
  | .runAsync _ | .setAsyncErrorHandler | .setSpawnAsyncHook => true
  | _ => false

def methodName : ApiCall → String
  | .start => "start" | .stop => "stop" | .stopWithSignal .. => "stop_with_signal" | .restart => "restart"
  | .restartWithSignal .. => "restart_with_signal" | .tryRestart => "try_restart" | .tryRestartWithSignal .. => "try_restart_with_signal"
  | .signal _ => "signal" | .toWait => "to_wait" | .delete => "delete" | .deleteNow => "delete_now" | .run _ => "run"
  | .setErrorHandler => "set_error_handler" | .unsetErrorHandler => "unset_error_handler"
  | .setSpawnHook => "set_spawn_hook" | .unsetSpawnHook => "unset_spawn_hook"
  | .runAsync _ => "run_async" | .setAsyncErrorHandler => "set_async_error_handler" | .setSpawnAsyncHook => "set_spawn_async_hook"

/-- name of the Rust `Control` variant a model control stands for -/
def ctlName : Ctl → String
  | .start => "Start" | .stop => "Stop" | .gracefulStop .. => "GracefulStop" | .tryRestart => "TryRestart"
  | .tryGracefulRestart .. => "TryGracefulRestart" | .continueTGR => "ContinueTryGracefulRestart" | .signal _ => "Signal"
  | .delete => "Delete" | .nextEnding => "NextEnding" | .func _ => "SyncFunc"
  | .setHook => "SetSyncSpawnHook" | .unsetHook => "UnsetSpawnHook" | .setErr => "SetSyncErrorHandler" | .unsetErr => "UnsetErrorHandler"

/-- the `Control` variant the ASYNC API methods send for it -/
def asyncName : Ctl → String
  | .func _ => "AsyncFunc" | .setHook => "SetAsyncSpawnHook" | .setErr => "SetAsyncErrorHandler" | c => ctlName c

def prioName : Prio → String | .normal => "Normal" | .high => "High" | .urgent => "Urgent"

def lookupApi (m : String) : Option (String × List String) :=
  (Gen.jobApi.find? (fun r => r.1 == m)).map (·.2)

end Jm
