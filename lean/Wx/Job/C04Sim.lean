import Wx.Job.C04
import Wx.Job.Inject
/-! C04 for every state the simulator can reach: any script, any race resolution, any fix flags. -/
namespace Jm

theorem register_frame (s : St) (f w) :
    (s.register f w).cs = s.cs ∧ (s.register f w).children = s.children ∧ (s.register f w).spawnCount = s.spawnCount := by
  unfold St.register; split <;> simp

theorem inv_register {s : St} (f w) (h : Inv s) : Inv (s.register f w) := by
  obtain ⟨a, b, c⟩ := register_frame s f w; exact inv_congr a b c h

theorem inv_resolveWaiter {s : St} (w) (h : Inv s) : Inv (s.resolveWaiter w) := by
  obtain ⟨a, b, c⟩ := resolveWaiter_frame s w; exact inv_congr a b c h

theorem inv_pollWaiter {s : St} (w) (h : Inv s) : Inv (pollWaiter s w) := by
  unfold pollWaiter
  split
  · split
    · exact h
    · split
      · exact inv_resolveWaiter _ h
      · simp only []
        split
        · exact inv_resolveWaiter _ (inv_register _ _ h)
        · exact inv_register _ _ (inv_register _ _ h)
  · exact h

theorem inv_foldl_poll (ws : List WaiterId) {s : St} (h : Inv s) : Inv (ws.foldl pollWaiter s) := by
  induction ws generalizing s with
  | nil => exact h
  | cons w ws ih => exact ih (inv_pollWaiter w h)

theorem inv_drainPolls {s : St} (h : Inv s) : Inv (drainPolls s) := by
  unfold drainPolls
  exact inv_foldl_poll _ (inv_congr (s := s) rfl rfl rfl h)

theorem inv_enqueue {s : St} (p m) (h : Inv s) : Inv (enqueue s p m) := by
  cases p <;> exact inv_congr (s := s) rfl rfl rfl h

theorem inv_park {s : St} (h : Inv s) : Inv (park s) := by
  unfold park; split; exact inv_congr (s := s) rfl rfl rfl h; exact h

theorem inv_settleAll (fuel : Nat) {s : St} (h : Inv s) : ∀ x ∈ settleAll fuel s, Inv x := by
  induction fuel generalizing s with
  | zero => intro x hx; simp [settleAll] at hx; subst hx; exact h
  | succ n ih =>
    intro x hx
    unfold settleAll at hx
    cases hts : turns s with
    | nil =>
      simp only [hts] at hx
      by_cases hp : (park s).pendingPolls.isEmpty = true
      · simp only [hp, if_true, List.mem_singleton] at hx; subst hx; exact inv_park h
      · simp only [hp, Bool.false_eq_true, if_false] at hx
        exact ih (inv_drainPolls (inv_park h)) x hx
    | cons t ts =>
      simp only [hts] at hx
      obtain ⟨y, hy, hxy⟩ := List.mem_flatMap.mp hx
      exact ih (inv_turns h y (by rw [hts]; exact hy)) x hxy

theorem inv_advanceAll (fuel target : Nat) {s : St} (h : Inv s) : ∀ x ∈ advanceAll fuel target s, Inv x := by
  induction fuel generalizing s with
  | zero => intro x hx; simp [advanceAll] at hx; subst hx; exact h
  | succ n ih =>
    intro x hx
    unfold advanceAll at hx
    obtain ⟨y, hy, hxy⟩ := List.mem_flatMap.mp hx
    have hyi := inv_settleAll 200 h y hy
    by_cases hidle : (!(Jm.turns y).isEmpty) = true
    · simp only [hidle, if_true, List.mem_singleton] at hxy; subst hxy; exact hyi
    simp only [hidle, Bool.false_eq_true, if_false] at hxy
    split at hxy
    · rename_i t _
      exact ih (s := { y with now := t }) (inv_congr (s := y) rfl rfl rfl hyi) x hxy
    · exact inv_settleAll 200 (s := { y with now := target }) (inv_congr (s := y) rfl rfl rfl hyi) x hxy

theorem inv_doSend {x : Sim} (p cs aw) (h : Inv x.st) : Inv (doSend x p cs aw).st := by
  unfold doSend
  simp only []
  split
  · split
    · exact inv_emit _ h
    · exact h
  · -- fold of enqueues keeps Inv
    have key : ∀ (l : List Ctl) (acc : St × FlagId × FlagId), Inv acc.1 →
        Inv (l.foldl (fun (acc : St × FlagId × FlagId) c =>
          let (st, nf, _) := acc
          (enqueue st p ⟨c, nf⟩, nf + 1, nf)) acc).1 := by
      intro l
      induction l with
      | nil => intro acc ha; exact ha
      | cons c l ih => intro acc ha; exact ih _ (inv_enqueue _ _ ha)
    have := key cs (x.st, x.nextFlag, 0) h
    revert this
    generalize (cs.foldl _ (x.st, x.nextFlag, 0)) = r
    obtain ⟨st, nf, last⟩ := r
    intro hst
    simp only []
    split
    · exact inv_pollWaiter _ (inv_congr (s := st) rfl rfl rfl hst)
    · exact hst

theorem inv_stepOp {x : Sim} (o : Op) (h : Inv x.st) : ∀ y ∈ stepOp x o, Inv y.st := by
  intro y hy
  cases o with
  | send p cs aw => simp only [stepOp, List.mem_singleton] at hy; subst hy; exact inv_doSend _ _ _ h
  | settle =>
    simp only [stepOp, List.mem_map] at hy
    obtain ⟨st, hst, rfl⟩ := hy
    exact inv_settleAll 200 h st hst
  | advance ms =>
    simp only [stepOp, List.mem_map] at hy
    obtain ⟨st, hst, rfl⟩ := hy
    exact inv_advanceAll 64 _ h st hst
  | dropHandles =>
    simp only [stepOp, List.mem_singleton] at hy; subst hy
    exact inv_congr (s := x.st) rfl rfl rfl h
  | inject p cs aw =>
    simp only [stepOp] at hy
    exact injectAll_ind (fun z => Inv z.st) p cs aw (fun z s' hz hs' => inv_turns hz s' hs') (fun z hz => inv_doSend p cs aw hz) 50 h y hy
  | clone w =>
    simp only [stepOp, List.mem_singleton] at hy; subst hy
    unfold cloneWaiter
    split
    · exact inv_pollWaiter _ (inv_congr (s := x.st) rfl rfl rfl h)
    · exact inv_emit _ h

theorem inv_runOps (ops : List Op) {x : Sim} (h : Inv x.st) : ∀ y ∈ runOps x ops, Inv y.st := by
  induction ops generalizing x with
  | nil => intro y hy; simp [runOps] at hy; subst hy; exact h
  | cons o os ih =>
    intro y hy
    simp only [runOps] at hy
    obtain ⟨z, hz, hyz⟩ := List.mem_flatMap.mp hy
    exact ih (inv_stepOp o h z hz) y hyz

/-- **C04** — for every fix configuration, every child-behaviour script, every operation script and
    every resolution of every race: at most one child is spawned-and-unreaped, and it is the one the
    task holds. -/
theorem c04 (cfg : Fixes) (behs : List Beh) (ops : List Op) :
    ∀ y ∈ runOps { st := { cfg := cfg, behs := behs, hookSet := true, parked := true } } ops, Inv y.st := by
  apply inv_runOps
  refine ⟨rfl, ?_, ?_⟩ <;> simp

/-- non-vacuity: a concrete reachable state with a live child -/
example : (runOps { st := { behs := [.ignores], hookSet := true, parked := true } }
    [.send .normal [.start] true, .settle]).map (fun x => x.st.live) = [[0]] := by decide

#print axioms c04
end Jm
