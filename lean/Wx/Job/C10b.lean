import Wx.Job.C10
import Wx.Job.SimInduct
namespace Jm

def QV.ids (v : QV) : Src → List FlagId
  | .normal => v.normal.map (·.done) | .high => v.high.map (·.done) | .urgent => v.urgent.map (·.done) | .timer => []

def proj (l : List (Src × FlagId)) (q : Src) : List FlagId := (l.filter (·.1 == q)).map (·.2)

/-- per queue: what `recv` has returned so far, followed by what is still queued, is what was sent,
    in send order — nothing lost, duplicated or reordered -/
def QV.Fifo (v : QV) : Prop := ∀ q, q ≠ .timer → proj v.taken q ++ v.ids q = proj v.sent q
def Fifo (s : St) : Prop := s.qv.Fifo

theorem fifo_congr {t s : St} (h : t.qv = s.qv) (hf : Fifo s) : Fifo t := by unfold Fifo; rw [h]; exact hf

theorem proj_append (l : List (Src × FlagId)) (a : Src) (d : FlagId) (q : Src) :
    proj (l ++ [(a, d)]) q = proj l q ++ (if a = q then [d] else []) := by
  unfold proj
  by_cases h : a = q
  · subst h; simp
  · simp [h]

theorem fifo_takeFrom {s s1 : St} {src m} (h : Fifo s) (ht : takeFrom s src = some (m, s1)) : Fifo s1 := by
  cases src with
  | timer =>
    simp only [takeFrom, Option.map_eq_some_iff] at ht
    obtain ⟨t, _, ht⟩ := ht
    injection ht with _ h2; subst h2
    exact fifo_congr rfl h
  | urgent =>
    simp only [takeFrom] at ht
    split at ht
    · next m' r hq =>
      injection ht with ht; injection ht with h1 h2; subst h1; subst h2
      intro q hq'
      have := h q hq'
      simp only [St.qv, QV.ids] at this ⊢
      rw [proj_append]
      cases q <;> simp_all
    · cases ht
  | high =>
    simp only [takeFrom] at ht
    split at ht
    · next m' r hq =>
      injection ht with ht; injection ht with h1 h2; subst h1; subst h2
      intro q hq'
      have := h q hq'
      simp only [St.qv, QV.ids] at this ⊢
      rw [proj_append]
      cases q <;> simp_all
    · cases ht
  | normal =>
    simp only [takeFrom] at ht
    split at ht
    · next m' r hq =>
      injection ht with ht; injection ht with h1 h2; subst h1; subst h2
      intro q hq'
      have := h q hq'
      simp only [St.qv, QV.ids] at this ⊢
      rw [proj_append]
      cases q <;> simp_all
    · cases ht

theorem fifo_enqueue {s : St} (p : Prio) (m : Msg) (h : Fifo s) : Fifo (enqueue s p m) := by
  intro q hq
  have := h q hq
  cases p <;> simp only [enqueue, St.qv, QV.ids] at this ⊢ <;> rw [proj_append] <;>
    cases q <;> (first | (simp_all; done) | (simp_all; rw [← this, List.append_assoc]))

theorem fifo_turnCandidates {s : St} (h : Fifo s) : ∀ x ∈ turnCandidates s, Fifo x := by
  intro x hx
  unfold turnCandidates at hx
  rcases List.mem_append.1 hx with hx | hx
  · split at hx
    · simp only [List.mem_singleton] at hx; subst hx
      exact fifo_congr ((waitBranch_qv _ _).trans rfl) h
    · cases hx
  · obtain ⟨src, _, hs⟩ := List.mem_filterMap.1 hx
    cases ht : takeFrom s src with
    | none => simp [ht] at hs
    | some p =>
      obtain ⟨m, s1⟩ := p
      simp only [ht] at hs
      injection hs with hs; subst hs
      have h1 : Fifo s1 := fifo_takeFrom h ht
      have h2 : Fifo { s1 with parked := false } := fifo_congr rfl h1
      exact fifo_congr (handle_qv _ _) h2

theorem fifo_closedOutcome {s : St} (h : Fifo s) : ∀ x ∈ closedOutcome s, Fifo x := by
  intro x hx
  unfold closedOutcome at hx
  split at hx
  · split at hx
    · simp only [List.mem_singleton] at hx; subst hx
      exact fifo_congr ((raise_qv _ _).trans rfl) h
    · simp only [List.mem_singleton] at hx; subst hx
      exact fifo_congr rfl h
  · cases hx

theorem fifo_turns {s : St} (h : Fifo s) : ∀ s' ∈ turns s, Fifo s' := by
  intro x hx
  unfold turns at hx
  split at hx
  · cases hx
  · split at hx
    · exact fifo_closedOutcome h x hx
    · exact fifo_turnCandidates h x hx

theorem register_qv (s : St) (f w) : (s.register f w).qv = s.qv := by
  unfold St.register; split <;> rfl

theorem pollWaiter_qv (s : St) (w) : (pollWaiter s w).qv = s.qv := by
  unfold pollWaiter
  split
  · split
    · rfl
    · split
      · exact resolveWaiter_qv _ _
      · simp only []
        split
        · exact (resolveWaiter_qv _ _).trans (register_qv _ _ _)
        · exact (register_qv _ _ _).trans (register_qv _ _ _)
  · rfl

theorem foldl_poll_qv (ws : List WaiterId) (s : St) : (ws.foldl pollWaiter s).qv = s.qv := by
  induction ws generalizing s with
  | nil => rfl
  | cons w ws ih => simp only [List.foldl_cons]; rw [ih, pollWaiter_qv]

theorem fifo_simInv : SimInv Fifo (fun _ _ => True) where
  turns := fun _ h => fifo_turns h
  park := fun s h => by unfold park; split; exact fifo_congr rfl h; exact h
  drain := fun s h => by unfold drainPolls; exact fifo_congr ((foldl_poll_qv _ _).trans rfl) h
  now := fun _ _ h => fifo_congr rfl h
  enqueue := fun _ p m _ h => fifo_enqueue p m h
  emit := fun _ _ h => fifo_congr rfl h
  newWaiter := fun _ _ _ h => fifo_congr ((pollWaiter_qv _ _).trans rfl) h
  close := fun _ h => fifo_congr rfl h

/-- **C10 (order within a priority, exactly once)** — for every fix configuration (so also for the
    code as it is), every script, child behaviour and race resolution. -/
theorem c10_fifo (cfg : Fixes) (behs : List Beh) (ops : List Op) :
    ∀ y ∈ runOps { st := { cfg := cfg, behs := behs, hookSet := true, parked := true } } ops, Fifo y.st := by
  apply fifo_simInv.runOps ops (fun o _ => by cases o <;> simp [OpOkFor])
  intro q _; cases q <;> simp [St.qv, proj, QV.ids]

/-- **C10 (priorities)** — with the biased receive (repair F7): a normal control is returned only
    when no grace timer is armed and no urgent or high control is pending; a high one only when no
    urgent one is pending; the timer's own message only once the grace period is over. -/
theorem c10_priority {s : St} (hf7 : s.cfg.f7 = true) {src : Src} (h : src ∈ recvCandidates s) :
    match src with
    | .normal => s.timer = none ∧ s.urgent = [] ∧ s.high = []
    | .high => s.urgent = []
    | .urgent => True
    | .timer => ∃ t, s.timer = some t ∧ t.until_ ≤ s.now := by
  unfold recvCandidates at h
  simp only [hf7, if_true] at h
  cases htm : s.timer with
  | some t =>
    simp only [htm] at h
    split at h
    · next hexp =>
      simp only [Bool.false_eq_true, if_false, List.mem_singleton] at h
      subst h; exact ⟨t, rfl, hexp⟩
    · simp only [Bool.false_eq_true, if_false] at h
      split at h
      · simp only [List.mem_singleton] at h; subst h; trivial
      · next hu =>
        split at h
        · simp only [List.mem_singleton] at h; subst h; simpa using hu
        · cases h
  | none =>
    simp only [htm, Bool.false_eq_true, if_false] at h
    split at h
    · simp only [List.mem_singleton] at h; subst h; trivial
    · next hu =>
      split at h
      · simp only [List.mem_singleton] at h; subst h; simpa using hu
      · next hh =>
        split at h
        · simp only [List.mem_singleton] at h; subst h
          exact ⟨rfl, by simpa using hu, by simpa using hh⟩
        · cases h

/-- today (unbiased final select): a parked task with both a normal and an urgent control pending
    may return the normal one first -/
theorem c10_priority_fails_today :
    ∃ s : St, s.cfg = Fixes.none ∧ s.urgent ≠ [] ∧ Src.normal ∈ recvCandidates s :=
  ⟨{ parked := true, normal := [⟨.start, 1⟩], urgent := [⟨.delete, 2⟩] }, rfl, by simp, by decide⟩

#print axioms c10_fifo
#print axioms c10_priority
end Jm
