import Wx.Job.C08
/-! C08, the shape the library really sends on a graceful quit: `stop_with_signal` = [GracefulStop],
    then `delete()` = [Stop, Delete], all normal priority. When that `Delete` is handled nothing is
    running — for EVERY fix configuration, today's code included. (What the repairs add is `QB`: between
    the graceful stop and that `Stop` no new process is started and nothing is killed before the grace
    period is over, so the `Stop` is a no-op.) -/
namespace Jm

def isStop : Option Ctl → Bool
  | some .stop => true
  | _ => false

def QS (s : St) : Prop := isStop s.lastNormal = true → s.timer = none ∧ NotRunning s

theorem qs_congr {t s : St} (h1 : t.lastNormal = s.lastNormal) (h2 : t.timer = s.timer) (h3 : t.cs = s.cs) (h : QS s) : QS t := by
  intro hg; rw [h1] at hg
  obtain ⟨a, b⟩ := h hg
  exact ⟨by rw [h2]; exact a, notRunning_of_cs h3 b⟩

/-- a normal control is never returned while a timer is armed — biased receive or not -/
theorem normal_cand' {s : St} (h : Src.normal ∈ recvCandidates s) : s.timer = none := by
  by_cases hf7 : s.cfg.f7 = true
  · exact normal_cand hf7 h
  · unfold recvCandidates at h
    simp only [if_neg hf7] at h
    cases htm : s.timer with
    | none => rfl
    | some t =>
      exfalso
      simp only [htm] at h
      split at h
      · split at h
        · simp only [List.mem_append, List.mem_singleton] at h
          rcases h with (h | h) | h
          · cases h
          · split at h <;> simp at h
          · split at h <;> simp at h
        · simp at h
      · split at h
        · simp only [List.mem_append] at h
          rcases h with h | h
          · split at h <;> simp at h
          · split at h <;> simp at h
        · split at h
          · simp at h
          · split at h <;> simp at h

structure I8b (s : St) : Prop where
  inv : Inv s
  sh : Shapes s
  qs : QS s

theorem shapes_of_queues {t s : St} (hu : ∀ m ∈ t.urgent, m ∈ s.urgent) (hh : ∀ m ∈ t.high, m ∈ s.high) (h : Shapes s) : Shapes t :=
  ⟨fun m hm => h.1 m (hu m hm), fun m hm => h.2 m (hh m hm)⟩

theorem takeFrom_queues {s s1 : St} {src m} (ht : takeFrom s src = some (m, s1)) :
    (∀ x ∈ s1.urgent, x ∈ s.urgent) ∧ (∀ x ∈ s1.high, x ∈ s.high) := by
  cases src with
  | timer =>
    simp only [takeFrom, Option.map_eq_some_iff] at ht
    obtain ⟨t, _, ht⟩ := ht
    injection ht with _ h2; subst h2; exact ⟨fun _ h => h, fun _ h => h⟩
  | urgent =>
    simp only [takeFrom] at ht
    split at ht
    · next m' r hq => injection ht with ht; injection ht with h1 h2; subst h2; exact ⟨fun x hx => by rw [hq]; exact List.mem_cons_of_mem _ hx, fun _ h => h⟩
    · cases ht
  | high =>
    simp only [takeFrom] at ht
    split at ht
    · next m' r hq => injection ht with ht; injection ht with h1 h2; subst h2; exact ⟨fun _ h => h, fun x hx => by rw [hq]; exact List.mem_cons_of_mem _ hx⟩
    · cases ht
  | normal =>
    simp only [takeFrom] at ht
    split at ht
    · injection ht with ht; injection ht with h1 h2; subst h2; exact ⟨fun _ h => h, fun _ h => h⟩
    · cases ht

theorem i8b_turns {s : St} (h : I8b s) : ∀ s' ∈ turns s, I8b s' := by
  intro x hx
  have hinv := inv_turns h.inv x hx
  unfold turns at hx
  split at hx
  · cases hx
  · split at hx
    · unfold closedOutcome at hx
      split at hx
      · split at hx
        · simp only [List.mem_singleton] at hx; subst hx
          refine ⟨hinv, shapes_of_queues (s := s) ?_ ?_ h.sh, ?_⟩
          · intro m hm; rw [raise_urgent] at hm; exact hm
          · intro m hm; rw [raise_high] at hm; exact hm
          · exact qs_congr (raise_ln _ _) ((te_raise _ _).1.trans rfl) ((raise_cs _ _).trans rfl) h.qs
        · simp only [List.mem_singleton] at hx; subst hx
          exact ⟨hinv, ⟨h.sh.1, h.sh.2⟩, qs_congr (s := s) rfl rfl rfl h.qs⟩
      · cases hx
    · unfold turnCandidates at hx
      rcases List.mem_append.1 hx with hx | hx
      · split at hx
        · next c hw =>
          simp only [List.mem_singleton] at hx; subst hx
          refine ⟨hinv, shapes_of_queues (s := s) ?_ ?_ h.sh, ?_⟩
          · intro m hm; rw [show (waitBranch _ c).urgent = _ from congrArg QV.urgent (waitBranch_qv _ c)] at hm; exact hm
          · intro m hm; rw [show (waitBranch _ c).high = _ from congrArg QV.high (waitBranch_qv _ c)] at hm; exact hm
          · intro hg
            rw [waitBranch_ln] at hg
            exact ((h.qs hg).2 c (waitReady_running hw)).elim
        · cases hx
      · obtain ⟨src, hsrc, hs⟩ := List.mem_filterMap.1 hx
        cases ht : takeFrom s src with
        | none => simp [ht] at hs
        | some p =>
          obtain ⟨m, s1⟩ := p
          simp only [ht] at hs
          injection hs with hs; subst hs
          obtain ⟨tq1, tq2⟩ := takeFrom_queues ht
          refine ⟨hinv, shapes_of_queues (s := s) ?_ ?_ h.sh, ?_⟩
          · intro x hx; rw [show (handle _ m).urgent = _ from congrArg QV.urgent (handle_qv _ m)] at hx; exact tq1 x hx
          · intro x hx; rw [show (handle _ m).high = _ from congrArg QV.high (handle_qv _ m)] at hx; exact tq2 x hx
          cases src with
          | timer =>
            intro hg
            rw [handle_ln] at hg
            simp only [takeFrom, Option.map_eq_some_iff] at ht
            obtain ⟨t, htm, ht⟩ := ht
            injection ht with h1 h2; subst h2
            have := (h.qs hg).1
            rw [htm] at this; cases this
          | urgent =>
            have hm : m.ctl = .stop ∨ m.ctl = .delete := by
              simp only [takeFrom] at ht
              split at ht
              · next m' r hq =>
                injection ht with ht; injection ht with h1 h2; subst h1
                exact h.sh.1 m' (by rw [hq]; simp)
              · cases ht
            have hq : s1.lastNormal = s.lastNormal ∧ s1.timer = s.timer ∧ s1.cs = s.cs ∧ s1.children = s.children ∧ s1.spawnCount = s.spawnCount := by
              simp only [takeFrom] at ht
              split at ht
              · injection ht with ht; injection ht with h1 h2; subst h2; exact ⟨rfl, rfl, rfl, rfl, rfl⟩
              · cases ht
            have hqs1 : QS ({ s1 with parked := false } : St) := qs_congr hq.1 hq.2.1 hq.2.2.1 h.qs
            have hinv1 : Inv ({ s1 with parked := false } : St) := inv_congr (s := s) hq.2.2.1 hq.2.2.2.1 hq.2.2.2.2 h.inv
            rcases m with ⟨ctl, f⟩
            simp only [] at hm
            rcases hm with rfl | rfl
            · obtain ⟨e1, e2⟩ := stop_effect _ f hinv1
              intro hg
              rw [handle_ln] at hg
              exact ⟨by rw [e1.1]; exact (hqs1 hg).1, e2⟩
            · exact qs_congr (handle_ln _ _) (delete_effect _ f).1.1 (delete_effect _ f).2 hqs1
          | high =>
            have hm : m.ctl = .nextEnding := by
              simp only [takeFrom] at ht
              split at ht
              · next m' r hq =>
                injection ht with ht; injection ht with h1 h2; subst h1
                exact h.sh.2 m' (by rw [hq]; simp)
              · cases ht
            have hq : s1.lastNormal = s.lastNormal ∧ s1.timer = s.timer ∧ s1.cs = s.cs := by
              simp only [takeFrom] at ht
              split at ht
              · injection ht with ht; injection ht with h1 h2; subst h2; exact ⟨rfl, rfl, rfl⟩
              · cases ht
            have hqs1 : QS ({ s1 with parked := false } : St) := qs_congr hq.1 hq.2.1 hq.2.2 h.qs
            rcases m with ⟨ctl, f⟩
            simp only [] at hm; subst hm
            exact qs_congr (handle_ln _ _) (nextEnding_effect _ f).1.1 (nextEnding_effect _ f).2 hqs1
          | normal =>
            have htm : s.timer = none := normal_cand' hsrc
            simp only [takeFrom] at ht
            split at ht
            · next m' r hq =>
              injection ht with ht; injection ht with h1 h2; subst h2; subst h1
              intro hg
              rw [handle_ln] at hg
              have hg' : isStop (some m'.ctl) = true := hg
              rcases m' with ⟨ctl, f⟩
              cases ctl with
              | stop =>
                have hinv1 : Inv ({ s with normal := r, taken := s.taken ++ [(Src.normal, f)], lastNormal := some Ctl.stop, parked := false } : St) :=
                  inv_congr (s := s) rfl rfl rfl h.inv
                obtain ⟨e1, e2⟩ := stop_effect _ f hinv1
                exact ⟨by rw [e1.1]; exact htm, e2⟩
              | _ => simp [isStop] at hg'
            · cases ht

theorem i8b_simInv : SimInv I8b ShapeOk where
  turns := fun _ h => i8b_turns h
  park := fun s h => ⟨inv_park h.inv, by unfold park; split; exact ⟨h.sh.1, h.sh.2⟩; exact h.sh, by
    unfold park; split
    · exact qs_congr (s := s) rfl rfl rfl h.qs
    · exact h.qs⟩
  drain := fun s h => ⟨inv_drainPolls h.inv, shapes_same (quiet_drainPolls s).1 h.sh, by
    unfold drainPolls
    exact qs_congr ((foldl_poll_lncs _ _).1.trans rfl) (by have := (quiet_drainPolls s).1.timer; unfold drainPolls at this; exact this)
      ((foldl_poll_lncs _ _).2.trans rfl) h.qs⟩
  now := fun s t h => ⟨inv_congr (s := s) rfl rfl rfl h.inv, ⟨h.sh.1, h.sh.2⟩, qs_congr (s := s) rfl rfl rfl h.qs⟩
  enqueue := fun s p m hs h => ⟨inv_enqueue p m h.inv, shapes_enqueue p m hs h.sh, by
    cases p <;> exact qs_congr (s := s) rfl rfl rfl h.qs⟩
  emit := fun s o h => ⟨inv_emit o h.inv, ⟨h.sh.1, h.sh.2⟩, qs_congr (s := s) rfl rfl rfl h.qs⟩
  newWaiter := fun s w f h => by
    have h1 : I8b ({ s with waiters := s.waiters ++ [{ id := w, done := f }] } : St) :=
      ⟨inv_congr (s := s) rfl rfl rfl h.inv, ⟨h.sh.1, h.sh.2⟩, qs_congr (s := s) rfl rfl rfl h.qs⟩
    exact ⟨inv_pollWaiter w h1.inv, shapes_same (quiet_pollWaiter _ _).1 h1.sh,
      qs_congr (pollWaiter_lncs _ _).1 (quiet_pollWaiter _ _).1.timer (pollWaiter_lncs _ _).2 h1.qs⟩
  close := fun s h => ⟨inv_congr (s := s) rfl rfl rfl h.inv, ⟨h.sh.1, h.sh.2⟩, qs_congr (s := s) rfl rfl rfl h.qs⟩

/-- **C08 (per job, the library's quit sequence)** — for EVERY fix configuration (so for the code as it
    is), every script of API-shaped operations, every child behaviour and every race: whenever `recv` is
    about to return a `Delete` queued directly behind a `Stop` (`Job::delete()` sends exactly
    `[Stop, Delete]`), nothing is running, nothing is un-reaped, and handling it ends the task. -/
theorem c08_delete_after_stop (cfg : Fixes) (behs : List Beh) (ops : List Op) (hok : ∀ o ∈ ops, OpOkFor ShapeOk o) :
    ∀ y ∈ runOps { st := { cfg := cfg, behs := behs, hookSet := true, parked := true } } ops,
      ∀ f r, y.st.normal = ⟨.delete, f⟩ :: r → isStop y.st.lastNormal = true →
        NotRunning y.st ∧ y.st.live = [] ∧ (handle y.st ⟨.delete, f⟩).alive = false := by
  intro y hy f r hq hg
  have h0 : I8b ({ cfg := cfg, behs := behs, hookSet := true, parked := true } : St) :=
    ⟨⟨rfl, by simp, by simp⟩, ⟨by simp, by simp⟩, fun hg => by simp [isStop] at hg⟩
  have h := i8b_simInv.runOps ops hok (x := { st := { cfg := cfg, behs := behs, hookSet := true, parked := true } }) h0 y hy
  have hn : NotRunning y.st := (h.qs hg).2
  refine ⟨hn, ?_, ?_⟩
  · have := h.inv.1
    rcases notRunning_iff.1 hn with hc | ⟨st, hc⟩ <;> rw [hc] at this <;> exact this
  · simp only [handle]
    rw [raise_alive]
    rfl

#print axioms c08_delete_after_stop
end Jm
