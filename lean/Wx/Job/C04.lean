import Wx.Job.Model
/-! C04 on the full model: at most one un-reaped child, and it is the one `cs` holds. -/
namespace Jm

/-- ids of children that were spawned and are not yet reaped -/
def St.live (s : St) : List ChildId := (s.children.filter (fun ch => !ch.reaped)).map (·.id)

def Inv (s : St) : Prop :=
  (s.live = match s.cs with | .running c => [c] | _ => []) ∧
  (∀ ch ∈ s.children, ch.id < s.spawnCount) ∧
  (s.children.map (·.id)).Nodup

/-! Inv only reads cs, children, spawnCount -/
theorem inv_congr {s t : St} (h1 : t.cs = s.cs) (h2 : t.children = s.children) (h3 : t.spawnCount = s.spawnCount)
    (h : Inv s) : Inv t := by
  unfold Inv St.live at *; rw [h1, h2, h3]; exact h

@[simp] theorem emit_cs (s : St) (o) : (s.emit o).cs = s.cs := rfl
@[simp] theorem emit_children (s : St) (o) : (s.emit o).children = s.children := rfl
@[simp] theorem emit_spawnCount (s : St) (o) : (s.emit o).spawnCount = s.spawnCount := rfl

theorem inv_emit {s : St} (o) (h : Inv s) : Inv (s.emit o) := inv_congr rfl rfl rfl h

theorem resolveWaiter_frame (s : St) (w) :
    (s.resolveWaiter w).cs = s.cs ∧ (s.resolveWaiter w).children = s.children ∧
    (s.resolveWaiter w).spawnCount = s.spawnCount := by
  unfold St.resolveWaiter
  split
  · split <;> simp [St.emit]
  · simp

theorem foldl_resolve_frame (ws : List WaiterId) (s : St) :
    (ws.foldl St.resolveWaiter s).cs = s.cs ∧ (ws.foldl St.resolveWaiter s).children = s.children ∧
    (ws.foldl St.resolveWaiter s).spawnCount = s.spawnCount := by
  induction ws generalizing s with
  | nil => simp
  | cons w ws ih =>
    simp only [List.foldl_cons]
    obtain ⟨a, b, c⟩ := ih (s.resolveWaiter w)
    obtain ⟨a', b', c'⟩ := resolveWaiter_frame s w
    exact ⟨a.trans a', b.trans b', c.trans c'⟩

theorem raise_frame (s : St) (f) :
    (s.raise f).cs = s.cs ∧ (s.raise f).children = s.children ∧ (s.raise f).spawnCount = s.spawnCount := by
  unfold St.raise
  exact foldl_resolve_frame _ _

theorem inv_raise {s : St} (f) (h : Inv s) : Inv (s.raise f) := by
  obtain ⟨a, b, c⟩ := raise_frame s f; exact inv_congr a b c h

theorem raiseAll_frame (fs : List FlagId) (s : St) :
    (s.raiseAll fs).cs = s.cs ∧ (s.raiseAll fs).children = s.children ∧ (s.raiseAll fs).spawnCount = s.spawnCount := by
  unfold St.raiseAll
  induction fs generalizing s with
  | nil => simp
  | cons f fs ih =>
    simp only [List.foldl_cons]
    obtain ⟨a, b, c⟩ := ih (s.raise f)
    obtain ⟨a', b', c'⟩ := raise_frame s f
    exact ⟨a.trans a', b.trans b', c.trans c'⟩

theorem inv_raiseAll {s : St} (fs) (h : Inv s) : Inv (s.raiseAll fs) := by
  obtain ⟨a, b, c⟩ := raiseAll_frame fs s; exact inv_congr a b c h

theorem inv_endFlags {s : St} (h : Inv s) : Inv s.endFlags := by
  unfold St.endFlags
  exact inv_congr (s := s.raiseAll s.onEnd) rfl rfl rfl (inv_raiseAll _ h)

theorem inv_errHandler {s : St} (h : Inv s) : Inv s.errHandler := by
  unfold St.errHandler; split
  · exact inv_emit _ h
  · exact h

/-! children updates, at list level -/

def liveIds (l : List Child) : List ChildId := (l.filter (fun ch => !ch.reaped)).map (·.id)
def upd (l : List Child) (ch : Child) : List Child := l.map (fun x => if x.id == ch.id then ch else x)

theorem live_eq (s : St) : s.live = liveIds s.children := rfl
theorem setChild_children (s : St) (ch : Child) : (s.setChild ch).children = upd s.children ch := rfl
@[simp] theorem setChild_cs (s : St) (ch : Child) : (s.setChild ch).cs = s.cs := rfl
@[simp] theorem setChild_spawnCount (s : St) (ch : Child) : (s.setChild ch).spawnCount = s.spawnCount := rfl

theorem liveIds_cons (a : Child) (l : List Child) :
    liveIds (a :: l) = if a.reaped then liveIds l else a.id :: liveIds l := by
  unfold liveIds; cases h : a.reaped <;> simp [List.filter_cons, h]

theorem upd_cons (a : Child) (l : List Child) (ch : Child) :
    upd (a :: l) ch = (if a.id == ch.id then ch else a) :: upd l ch := rfl

theorem upd_ids (l : List Child) (ch : Child) : (upd l ch).map (·.id) = l.map (·.id) := by
  induction l with
  | nil => rfl
  | cons a l ih =>
    rw [upd_cons, List.map_cons, List.map_cons, ih]
    by_cases h : a.id == ch.id
    · simp only [h, if_true]; simp at h; rw [h]
    · simp [h]

theorem liveIds_upd_same (l : List Child) (ch : Child) (h : ∀ x ∈ l, x.id = ch.id → x.reaped = ch.reaped) :
    liveIds (upd l ch) = liveIds l := by
  induction l with
  | nil => rfl
  | cons a l ih =>
    have ih' := ih (fun x hx => h x (List.mem_cons_of_mem _ hx))
    rw [upd_cons, liveIds_cons, liveIds_cons, ih']
    by_cases ha : a.id == ch.id
    · have hid : a.id = ch.id := by simpa using ha
      have hr := h a (List.mem_cons_self) hid
      rw [if_pos ha, ← hr, ← hid]
    · simp only [ha, Bool.false_eq_true, if_false]

theorem liveIds_upd_reaped (l : List Child) (ch : Child) (hr : ch.reaped = true) :
    liveIds (upd l ch) = (liveIds l).filter (· != ch.id) := by
  induction l with
  | nil => rfl
  | cons a l ih =>
    rw [upd_cons, liveIds_cons, liveIds_cons, ih]
    by_cases ha : a.id == ch.id
    · have hid : a.id = ch.id := by simpa using ha
      simp only [ha, if_true, hr]
      by_cases har : a.reaped
      · simp [har]
      · simp [har, hid, List.filter_cons]
    · have hne : (a.id != ch.id) = true := by simpa [bne] using ha
      simp only [ha, Bool.false_eq_true, if_false]
      by_cases har : a.reaped
      · simp [har]
      · simp [har, List.filter_cons, hne]

theorem inv_setChild_same {s : St} (ch : Child) (h : Inv s)
    (hsame : ∀ x ∈ s.children, x.id = ch.id → x.reaped = ch.reaped) : Inv (s.setChild ch) := by
  obtain ⟨h1, h2, h3⟩ := h
  refine ⟨?_, ?_, ?_⟩
  · rw [live_eq, setChild_children, liveIds_upd_same _ _ hsame, setChild_cs]; exact h1
  · intro x hx
    rw [setChild_children] at hx
    have : x.id ∈ (upd s.children ch).map (·.id) := List.mem_map_of_mem hx
    rw [upd_ids] at this
    obtain ⟨y, hy, hyx⟩ := List.mem_map.mp this
    have := h2 y hy
    rw [setChild_spawnCount, ← hyx]; exact this
  · rw [setChild_children, upd_ids]; exact h3

theorem child?_mem {s : St} {c : ChildId} {ch : Child} (h : s.child? c = some ch) : ch ∈ s.children ∧ ch.id = c := by
  unfold St.child? at h
  have := List.find?_some h
  exact ⟨List.mem_of_find?_eq_some h, by simpa using this⟩

theorem nodup_map_inj {α β} (f : α → β) : ∀ (l : List α), (l.map f).Nodup → ∀ x ∈ l, ∀ y ∈ l, f x = f y → x = y
  | [], _, x, hx, _, _, _ => by cases hx
  | a :: l, hnd, x, hx, y, hy, hxy => by
    rw [List.map_cons, List.nodup_cons] at hnd
    obtain ⟨hna, hnd'⟩ := hnd
    rcases List.mem_cons.mp hx with rfl | hx' <;> rcases List.mem_cons.mp hy with rfl | hy'
    · rfl
    · exact absurd (hxy ▸ List.mem_map_of_mem hy') hna
    · exact absurd (hxy ▸ List.mem_map_of_mem hx') hna
    · exact nodup_map_inj f l hnd' x hx' y hy' hxy

theorem eq_of_id_eq {s : St} (h : Inv s) {x y : Child} (hx : x ∈ s.children) (hy : y ∈ s.children)
    (hid : x.id = y.id) : x = y :=
  nodup_map_inj (·.id) _ h.2.2 x hx y hy hid

theorem inv_signalChild {s : St} (c sig) (h : Inv s) : Inv (s.signalChild c sig) := by
  have he : Inv (s.emit (.signal c sig)) := inv_emit _ h
  unfold St.signalChild
  cases hch : (s.emit (.signal c sig)).child? c with
  | none => simpa [hch] using he
  | some ch =>
    simp only [hch]
    obtain ⟨hm, hid⟩ := child?_mem hch
    split
    · apply inv_setChild_same _ he
      intro x hx hxid
      have : x = ch := eq_of_id_eq he hx hm (by simpa using hxid)
      subst this; rfl
    · exact he

/-! spawn / reset / kill -/

def NotRunning (s : St) : Prop := ∀ c, s.cs ≠ .running c

theorem inv_reset {s : St} (h : Inv s) (hn : NotRunning s) : Inv s.reset ∧ NotRunning s.reset := by
  unfold St.reset
  cases hcs : s.cs with
  | running c => exact absurd hcs (hn c)
  | pending =>
    refine ⟨?_, fun c => by simp⟩
    obtain ⟨h1, h2, h3⟩ := h
    exact ⟨by simpa [St.live, hcs] using h1, h2, h3⟩
  | finished st =>
    refine ⟨?_, fun c => by simp⟩
    obtain ⟨h1, h2, h3⟩ := h
    exact ⟨by simpa [St.live, hcs] using h1, h2, h3⟩

theorem liveIds_append (l1 l2 : List Child) : liveIds (l1 ++ l2) = liveIds l1 ++ liveIds l2 := by
  simp [liveIds, List.filter_append]

theorem inv_spawn {s : St} (h : Inv s) (hn : NotRunning s) : Inv s.spawn.1 := by
  unfold St.spawn
  cases hcs : s.cs with
  | running c => exact absurd hcs (hn c)
  | pending | finished st =>
    all_goals
      simp only []
      -- after the optional hook emit
      generalize hs' : (if s.hookSet = true then s.emit Obs.hook else s) = s'
      have hinv' : Inv s' := by subst hs'; split; exact inv_emit _ h; exact h
      have hcs' : s'.cs = s.cs := by subst hs'; split <;> rfl
      have hlive0 : s'.live = [] := by
        have := hinv'.1; rw [hcs', hcs] at this; exact this
      cases hb : behAt s' with
      | spawnFails =>
        simp only []
        apply inv_emit
        obtain ⟨h1, h2, h3⟩ := hinv'
        exact ⟨h1, fun ch hch => Nat.lt_succ_of_lt (h2 ch hch), h3⟩
      | exitsAfter d | exitsAfterSignal d | ignores =>
        simp only []
        apply inv_emit
        obtain ⟨h1, h2, h3⟩ := hinv'
        refine ⟨?_, ?_, ?_⟩
        · show liveIds (s'.children ++ [_]) = [s'.spawnCount]
          rw [liveIds_append, show liveIds s'.children = [] from hlive0]
          simp [liveIds]
        · intro ch hch
          rcases List.mem_append.mp hch with hm | hm
          · exact Nat.lt_succ_of_lt (h2 ch hm)
          · simp at hm; subst hm; exact Nat.lt_succ_self _
        · show ((s'.children ++ [_]).map (fun (x : Child) => x.id)).Nodup
          rw [List.map_append, List.nodup_append]
          refine ⟨h3, by simp, ?_⟩
          intro a ha b hb
          simp at hb; subst hb
          obtain ⟨y, hy, rfl⟩ := List.mem_map.mp ha
          exact Nat.ne_of_lt (h2 y hy)

theorem spawn_ok_running {s : St} (hn : NotRunning s) : s.spawn.2 = true → ∃ c, s.spawn.1.cs = .running c := by
  unfold St.spawn
  cases hcs : s.cs with
  | running c => exact absurd hcs (hn c)
  | pending | finished st =>
    all_goals
      simp only []
      cases hb : behAt (if s.hookSet = true then s.emit Obs.hook else s) <;> simp [St.emit]

theorem inv_killReap {s : St} {c} (h : Inv s) (hc : s.cs = .running c) :
    Inv (s.killReap c) ∧ NotRunning (s.killReap c) := by
  unfold St.killReap
  have he : Inv (s.emit (.kill c)) := inv_emit _ h
  cases hch : (s.emit (.kill c)).child? c with
  | none =>
    -- impossible: the running child is in the list
    exfalso
    obtain ⟨h1, _, _⟩ := h
    rw [hc] at h1
    have : c ∈ s.live := by rw [h1]; simp
    simp only [St.live, List.mem_map, List.mem_filter] at this
    obtain ⟨ch, ⟨hm, _⟩, hid⟩ := this
    unfold St.child? at hch
    rw [List.find?_eq_none] at hch
    exact hch ch hm (by simpa using hid)
  | some ch =>
    simp only [hch]
    obtain ⟨hm, hid⟩ := child?_mem hch
    refine ⟨?_, fun c' => by simp [St.emit]⟩
    apply inv_emit
    obtain ⟨h1, h2, h3⟩ := he
    simp only [emit_cs, emit_children, emit_spawnCount] at h1 h2 h3 hm
    refine ⟨?_, ?_, ?_⟩
    · show liveIds (upd s.children _) = []
      rw [liveIds_upd_reaped _ _ rfl]
      rw [hc] at h1; simp only [St.live] at h1
      show List.filter _ (liveIds s.children) = []
      rw [show liveIds s.children = [c] from h1]
      simp [hid]
    · intro x hx
      have : x.id ∈ (upd s.children { ch with exitAt := some s.now, status := 9, reaped := true }).map (·.id) :=
        List.mem_map_of_mem hx
      rw [upd_ids] at this
      obtain ⟨y, hy, hyx⟩ := List.mem_map.mp this
      rw [← hyx]; exact h2 y hy
    · show ((upd s.children _).map (·.id)).Nodup
      rw [upd_ids]; exact h3

/-! controls -/

theorem endFlags_cs (s : St) : s.endFlags.cs = s.cs := by
  unfold St.endFlags; exact (raiseAll_frame s.onEnd s).1

theorem notRunning_of_cs {s t : St} (h : t.cs = s.cs) (hn : NotRunning s) : NotRunning t :=
  fun c => by rw [h]; exact hn c

theorem notRunning_iff {s : St} : NotRunning s ↔ (s.cs = .pending ∨ ∃ st, s.cs = .finished st) := by
  unfold NotRunning
  cases s.cs <;> simp

/-- reset, (optional tweak that keeps cs/children/spawnCount), spawn, then finish -/
theorem inv_respawn {s : St} (h : Inv s) (hn : NotRunning s) (fin : St → St)
    (hfin : ∀ t, Inv t → Inv (fin t)) :
    Inv (let (s1, ok) := s.reset.spawn; if ok then fin s1 else fin s1.errHandler) := by
  obtain ⟨hr, hnr⟩ := inv_reset h hn
  have := inv_spawn hr hnr
  simp only []
  split
  · exact hfin _ this
  · exact hfin _ (inv_errHandler this)

theorem inv_handle {s : St} (m : Msg) (h : Inv s) : Inv (handle s m) := by
  have hfin : ∀ t, Inv t → Inv (t.raise m.done) := fun t ht => inv_raise _ ht
  unfold handle
  cases hm : m.ctl with
  | start =>
    simp only []
    cases hcs : s.cs with
    | running c => exact hfin _ h
    | pending => exact inv_respawn h (fun c => by simp [hcs]) _ hfin
    | finished st => exact inv_respawn h (fun c => by simp [hcs]) _ hfin
  | stop =>
    simp only []
    cases hcs : s.cs with
    | running c => exact hfin _ (inv_endFlags (inv_killReap h hcs).1)
    | pending => exact hfin _ h
    | finished st => exact hfin _ h
  | gracefulStop sig grace =>
    simp only []
    cases hcs : s.cs with
    | running c => exact inv_congr (s := s.signalChild c sig) rfl rfl rfl (inv_signalChild c sig h)
    | pending => exact hfin _ h
    | finished st => exact hfin _ h
  | tryRestart =>
    simp only []
    cases hcs : s.cs with
    | running c =>
      obtain ⟨hk, hnk⟩ := inv_killReap h hcs
      obtain ⟨hr, hnr⟩ := inv_reset hk hnk
      have he := inv_endFlags hr
      have hne : NotRunning (s.killReap c).reset.endFlags := notRunning_of_cs (endFlags_cs _) hnr
      have := inv_spawn he hne
      simp only []
      split
      · exact hfin _ this
      · exact hfin _ (inv_errHandler this)
    | pending => exact hfin _ h
    | finished st => exact hfin _ h
  | tryGracefulRestart sig grace =>
    simp only []
    cases hcs : s.cs with
    | running c => exact inv_congr (s := s.signalChild c sig) rfl rfl rfl (inv_signalChild c sig h)
    | pending => exact hfin _ h
    | finished st => exact hfin _ h
  | continueTGR =>
    simp only []
    -- state after the optional kill
    have key : ∀ s0 : St, Inv s0 → NotRunning s0 →
        Inv (let s1 := if s0.cfg.f4 = true then { s0 with onEndRestart := none } else s0
             let (s2, ok) := s1.reset.spawn
             if ok then s2.raise m.done else s2.errHandler.raise m.done) := by
      intro s0 h0 hn0
      simp only []
      have h1 : Inv (if s0.cfg.f4 = true then { s0 with onEndRestart := none } else s0) := by
        split; exact inv_congr (s := s0) rfl rfl rfl h0; exact h0
      have hn1 : NotRunning (if s0.cfg.f4 = true then { s0 with onEndRestart := none } else s0) := by
        split; exact notRunning_of_cs (s := s0) rfl hn0; exact hn0
      exact inv_respawn h1 hn1 _ hfin
    cases hcs : s.cs with
    | running c =>
      obtain ⟨hk, hnk⟩ := inv_killReap h hcs
      exact key _ (inv_endFlags hk) (notRunning_of_cs (endFlags_cs _) hnk)
    | pending => exact key _ h (fun c => by simp [hcs])
    | finished st => exact key _ h (fun c => by simp [hcs])
  | signal sig =>
    simp only []
    cases hcs : s.cs with
    | running c => exact hfin _ (inv_signalChild c sig h)
    | pending => exact hfin _ h
    | finished st => exact hfin _ h
  | delete =>
    simp only []
    exact inv_raise _ (inv_emit _ (inv_congr (s := s.raise m.done) rfl rfl rfl (hfin _ h)))
  | nextEnding =>
    simp only []
    cases hcs : s.cs with
    | running c => exact inv_congr (s := s) (by simp [hcs]) rfl rfl h
    | pending =>
      simp only []
      split
      · exact hfin _ h
      · exact inv_congr (s := s) (by simp [hcs]) rfl rfl h
    | finished st => exact hfin _ h
  | func id => exact hfin _ (inv_emit _ h)
  | setHook => exact hfin _ (inv_congr (s := s) rfl rfl rfl h)
  | unsetHook => exact hfin _ (inv_congr (s := s) rfl rfl rfl h)
  | setErr => exact hfin _ (inv_congr (s := s) rfl rfl rfl h)
  | unsetErr => exact hfin _ (inv_congr (s := s) rfl rfl rfl h)

/-! wait branch, turns -/

theorem waitReady_running {s : St} {c} (h : waitReady s = some c) : s.cs = .running c := by
  unfold waitReady at h
  cases hcs : s.cs with
  | running c' =>
    simp only [hcs] at h
    cases hch : s.child? c' with
    | none => simp [hch] at h
    | some ch =>
      simp only [hch] at h
      cases he : ch.exitAt with
      | none => simp [he] at h
      | some t => simp only [he] at h; split at h <;> simp_all
  | pending => simp [hcs] at h
  | finished st => simp [hcs] at h

theorem inv_reap {s : St} {c} (h : Inv s) (hc : s.cs = .running c) : Inv (s.reap c) ∧ NotRunning (s.reap c) := by
  have hmem : ∃ ch, s.child? c = some ch := by
    obtain ⟨h1, _, _⟩ := h
    rw [hc] at h1
    have : c ∈ s.live := by rw [h1]; simp
    simp only [St.live, List.mem_map, List.mem_filter] at this
    obtain ⟨ch, ⟨hm, _⟩, hid⟩ := this
    cases hch : s.child? c with
    | some x => exact ⟨x, rfl⟩
    | none =>
      unfold St.child? at hch
      rw [List.find?_eq_none] at hch
      exact absurd (by simpa using hid) (hch ch hm)
  obtain ⟨ch, hch⟩ := hmem
  obtain ⟨hm, hid⟩ := child?_mem hch
  unfold St.reap
  simp only [hch]
  refine ⟨inv_emit _ ?_, fun c' => by simp [St.emit]⟩
  obtain ⟨h1, h2, h3⟩ := h
  refine ⟨?_, ?_, ?_⟩
  · show liveIds (upd s.children _) = []
    rw [liveIds_upd_reaped _ _ rfl]
    rw [hc] at h1
    rw [show liveIds s.children = [c] from h1]
    simp [hid]
  · intro x hx
    have : x.id ∈ (upd s.children { ch with reaped := true }).map (·.id) := List.mem_map_of_mem hx
    rw [upd_ids] at this
    obtain ⟨y, hy, hyx⟩ := List.mem_map.mp this
    show x.id < s.spawnCount
    rw [← hyx]; exact h2 y hy
  · show ((upd s.children _).map (·.id)).Nodup
    rw [upd_ids]; exact h3

theorem inv_continueRestart {s : St} (h : Inv s) (hn : NotRunning s) : Inv s.continueRestart := by
  unfold St.continueRestart
  split
  · rename_i f hf
    have h1 : Inv { s with onEndRestart := none } := inv_congr (s := s) rfl rfl rfl h
    have hn1 : NotRunning { s with onEndRestart := none } := notRunning_of_cs (s := s) rfl hn
    obtain ⟨hr, hnr⟩ := inv_reset h1 hn1
    have hs := inv_spawn hr hnr
    simp only []
    split
    · exact inv_raise _ hs
    · split
      · exact inv_raise _ (inv_errHandler hs)
      · exact inv_errHandler hs
  · exact h

theorem inv_waitBranch {s : St} {c} (h : Inv s) (hc : s.cs = .running c) : Inv (waitBranch s c) := by
  unfold waitBranch
  obtain ⟨hr, hnr⟩ := inv_reap h hc
  have h2 := inv_raiseAll s.stopFlags hr
  have hn2 : NotRunning ((s.reap c).raiseAll s.stopFlags) := notRunning_of_cs (raiseAll_frame _ _).1 hnr
  exact inv_continueRestart (inv_endFlags h2) (notRunning_of_cs (endFlags_cs _) hn2)

theorem inv_takeFrom {s s1 : St} {src m} (h : Inv s) (ht : takeFrom s src = some (m, s1)) : Inv s1 := by
  cases src <;> simp only [takeFrom] at ht
  · cases htm : s.timer with
    | none => simp [htm] at ht
    | some t => simp [htm] at ht; obtain ⟨_, rfl⟩ := ht; exact inv_congr (s := s) rfl rfl rfl h
  · cases hq : s.urgent with
    | nil => simp [hq] at ht
    | cons a r => simp [hq] at ht; obtain ⟨_, rfl⟩ := ht; exact inv_congr (s := s) rfl rfl rfl h
  · cases hq : s.high with
    | nil => simp [hq] at ht
    | cons a r => simp [hq] at ht; obtain ⟨_, rfl⟩ := ht; exact inv_congr (s := s) rfl rfl rfl h
  · cases hq : s.normal with
    | nil => simp [hq] at ht
    | cons a r => simp [hq] at ht; obtain ⟨_, rfl⟩ := ht; exact inv_congr (s := s) rfl rfl rfl h

theorem inv_turnCandidates {s : St} (h : Inv s) : ∀ x ∈ turnCandidates s, Inv x := by
  intro x hx
  have hp : Inv { s with parked := false } := inv_congr (s := s) rfl rfl rfl h
  unfold turnCandidates at hx
  rcases List.mem_append.mp hx with hx | hx
  · cases hw : waitReady s with
    | none => simp [hw] at hx
    | some c =>
      simp only [hw, List.mem_singleton] at hx
      subst hx
      exact inv_waitBranch hp (waitReady_running hw)
  · obtain ⟨src, _, hsrc⟩ := List.mem_filterMap.mp hx
    cases ht : takeFrom s src with
    | none => simp [ht] at hsrc
    | some p =>
      obtain ⟨m, s1⟩ := p
      simp only [ht, Option.some.injEq] at hsrc
      subst hsrc
      exact inv_handle _ (inv_congr (s := s1) rfl rfl rfl (inv_takeFrom h ht))

theorem inv_closedOutcome {s : St} (h : Inv s) : ∀ x ∈ closedOutcome s, Inv x := by
  intro x hx
  unfold closedOutcome at hx
  split at hx
  · split at hx
    · simp only [List.mem_singleton] at hx; subst hx
      exact inv_raise _ (inv_emit _ (inv_congr (s := s) rfl rfl rfl h))
    · simp only [List.mem_singleton] at hx; subst hx
      exact inv_emit _ (inv_congr (s := s) rfl rfl rfl h)
  · simp at hx

/-- every possible task turn preserves the invariant -/
theorem inv_turns {s : St} (h : Inv s) : ∀ s' ∈ turns s, Inv s' := by
  intro s' hs'
  unfold turns at hs'
  split at hs'
  · simp at hs'
  · split at hs'
    · exact inv_closedOutcome h s' hs'
    · exact inv_turnCandidates h s' hs'

end Jm
