/-! shared text type: kernel-reducible, unlike `String` -/
namespace Wp
abbrev Str := List Char
end Wp
