import Wx.Fs.Reconf
namespace Wx.Driver.Reconf
open Rc

def parseIn (s : String) : InH :=
  match s.toList with
  | 'P' :: r => .paths (((String.ofList r).splitOn ",").filter (· ≠ ""))
  | 'K' :: r => .kind (String.ofList r)
  | ['A'] => .replAct
  | ['E'] => .replErr
  | _ => .nop

def parseActs (s : String) : List InH := (s.splitOn "|").map parseIn

def sortStrs (l : List String) : List String := (l.toArray.qsort (· < ·)).toList

/-- line: `RC <ops> <error counts per segment, comma separated>` -/
def handleLine (line : String) : String :=
  match line.splitOn "\t" with
  | ["RC", ops, counts] =>
    let ks := (counts.splitOn ",").map String.toNat!
    let rec go (os : List String) (ks : List Nat) (acc : List Top) (fuel : Nat) : Option (List Top) :=
      match fuel, os with
      | 0, _ => none
      | _, [] => some acc.reverse
      | f + 1, o :: rest =>
        match o.splitOn ":" with
        | ["ev", a] => go rest ks.tail (.ev (parseActs a) (ks.headD 0) :: acc) f
        | ["eh", a] => go rest ks (.eh (parseActs a) :: acc) f
        | ["set", ps, k] => go rest ks.tail (.set ((ps.splitOn ",").filter (· ≠ "")) k (ks.headD 0) :: acc) f
        | ["bad", _] => go rest ks acc f
        | ["good", _] => go rest ks acc f
        | _ => none
    match go (ops.splitOn ";") ks [] 1000 with
    | none => "bad-op"
    | some tops =>
      let r := run tops
      let seg (l : List (List String)) := String.intercalate "|" (l.map (String.intercalate ","))
      s!"act={seg r.alog} err={seg r.elog} cfg={String.intercalate "," (sortStrs r.paths)}|{r.kind}"
  | _ => "bad-line"

end Wx.Driver.Reconf
