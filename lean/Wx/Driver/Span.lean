import Wx.Cli.TimeSpan
/-! Driver for the time-span stream: `<id> <option> <value>` -> `<id> <ns>[ throttle=<ns>]` or `<id> error` -/
namespace Wx.Driver.Span
open Ca.Ts

def multOf (opt : String) : Option Nat :=
  match opt with
  | "--debounce" | "--poll" => some msMult
  | "--stop-timeout" | "--delay-run" => some sMult
  | _ => none

def handleLine (line : String) : String :=
  match line.splitOn " " with
  | id :: opt :: rest =>
    let v := " ".intercalate rest
    match multOf opt with
    | none => "bad-option"
    | some m =>
      match parseSpan m v.toList with
      | some ns => if opt == "--debounce" then s!"{id} {ns} throttle={ns}" else s!"{id} {ns}"
      | none => s!"{id} error"
  | _ => "bad-line"

end Wx.Driver.Span
