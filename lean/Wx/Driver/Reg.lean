import Wx.Reg.Model
/-! Driver for the job-registry stream: `<id> <none|all> <action|action|…>`; an action is `op;op;…[/j,j,…]` (jobs deleted after it)
    with ops `c<t>` (create_job on thread t) `m<t>` (Id::default() on thread t) `g<k>` (get_or_create_job with the k-th id held)
    `q<k>` (get_job). A fourth field `abort` makes the final quit an abort. Answer: `<id> out=<n<j>|e<j>|-,…> leaked=<j,…> main=<ok|timeout>` after a graceful quit. -/
namespace Wx.Driver.Reg
open Rg

def parseOp (s : String) : Option Op :=
  match s.toList with
  | 'c' :: r => (String.ofList r).toNat?.map .create
  | 'm' :: r => (String.ofList r).toNat?.map .mint
  | 'g' :: r => (String.ofList r).toNat?.map .goc
  | 'q' :: r => (String.ofList r).toNat?.map .get
  | _ => none

def parseAction (s : String) : Option (List Op × List Nat) :=
  match s.splitOn "/" with
  | [ops] => ((ops.splitOn ";").filter (· ≠ "")).mapM parseOp |>.map (·, [])
  | [ops, ks] => do
    let os ← ((ops.splitOn ";").filter (· ≠ "")).mapM parseOp
    let js ← ((ks.splitOn ",").filter (· ≠ "")).mapM (·.toNat?)
    pure (os, js)
  | _ => none

def showRes : Res → String
  | .created j => s!"n{j}" | .existing j => s!"e{j}" | .none => "-"

def handleLine (line : String) : String :=
  let go (id cfg acts : String) (abort : Bool) : String :=
    match (acts.splitOn "|").mapM parseAction with
    | some script =>
      let w := run (init { f19 := cfg == "all" }) script
      let js (l : List Nat) := ",".intercalate (l.map toString)
      if abort then s!"{id} out={",".intercalate (w.out.reverse.map showRes)} leaked={js (abortLeaked w)} main=ok"
      else s!"{id} out={",".intercalate (w.out.reverse.map showRes)} leaked={js (leaked w)} main={if (hung w).isEmpty then "ok" else "timeout"}"
    | none => "bad-op"
  match line.splitOn " " with
  | [id, cfg, acts] => go id cfg acts false
  | [id, cfg, acts, "abort"] => go id cfg acts true
  | _ => "bad-line"

end Wx.Driver.Reg
