import Wx.Err.Model
/-! Driver for the C15 model: the errors in the order the real handler saw them (the event channel in
    front of the filter is a heap, so that order is an input), channel capacity and handler behaviours
    → which handler generation saw each error, and how the hook ended. -/
namespace Wx.Driver.Err
open Eh

def parseBeh : Char → HB
  | 'e' => .elevate | 'c' => .critical | 'r' => .replace | _ => .ignore

/-- every error is sent with `send().await`; the hook takes a turn whenever the channel is non-empty -/
def drive (cap : Nat) (behs : List HB) (n : Nat) : St :=
  let s0 : St := { cap := cap, behs := behs }
  let s := (List.range n).foldl (fun s i => step (step s (.send 0 i)) .hookTurn) s0
  -- drain what is left (blocked senders are admitted as the hook frees permits)
  (List.range (2 * n + 2)).foldl (fun s _ => step s .hookTurn) s

def handleLine (line : String) : String :=
  match line.splitOn "\t" with
  | ["ERR", cap, behs, ids] =>
    let names := if ids.isEmpty then [] else ids.splitOn ","
    let s := drive cap.toNat! (if behs == "-" then [] else behs.toList.map parseBeh) names.length
    let shown := s.delivered.map (fun (g, e) => match e with
      | .sent _ i => (if g > 0 then "N:" else "") ++ names.getD i "?"
      | _ => "?")
    let main := match s.ended with
      | none => "running" | some .exit => "ok" | some (.elevated _) => "err:Elevated" | some .critical => "err:External"
    "handled=" ++ ",".intercalate shown ++ " main=" ++ main
  | _ => "bad-op"

end Wx.Driver.Err
