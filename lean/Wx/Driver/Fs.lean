import Wx.Fs.Model
namespace Wx.Driver.Fs
open Fw

def parseWP (s : String) : WP :=
  let l := s.toList
  { name := String.ofList l.dropLast, recursive := l.getLast? == some '+' }

def parsePaths (s : String) : List WP := if s.isEmpty then [] else (s.splitOn ",").map parseWP
def parseKind (s : String) : Kind := if s == "P" then .poll else if s == "Q" then .poll2 else .native

def shapeCount (sh : String) : Nat := if sh == "s" || sh == "1" then 1 else if sh == "s1" || sh == "2" then 2 else 0

/-- hooks that call `Config::file_watcher` only keep the path set that is configured when they fire: the one in force for the worker
    run in which they fire (there is at most one pending hook, so nothing else changes the path set before it fires). `keep` lists the
    names of the pending kind-only hooks; their path set is refreshed before every worker run. -/
def resolveKeep (keep : List String) (s : St) : St :=
  { s with hooks := s.hooks.map (fun (n, c) => if keep.contains n then (n, { c with paths := s.cfg.paths }) else (n, c)) }

def report (s : St) : String × St :=
  let calls := (s.log.toArray.qsort (· < ·)).toList
  let live := match s.watcher with
    | none => "none"
    | some (_, reg) => if reg.isEmpty then "empty" else String.intercalate "," ((reg.map wpStr).toArray.qsort (· < ·)).toList
  (s!"{String.intercalate "," calls}/e{s.errs}/{live}", { s with log := [], errs := 0 })

def stepOp (acc : St × List String × List String) (op : String) : St × List String × List String :=
  let (s, out, keep) := acc
  let fin (s : St) : St × List String × List String :=
    let (r, s) := report s; (s, out ++ [r], keep.filter (fun n => s.hooks.any (·.1 == n)))
  match op.splitOn ":" with
  | ["set", ps, k] => fin (runWorker 16 (resolveKeep keep (applyCfg s { paths := parsePaths ps, kind := parseKind k } true)))
  | ["poke"] => fin (runWorker 16 (resolveKeep keep { s with ver := s.ver + 1, pendingWake := true }))
  -- `kind:<kind>`: `Config::file_watcher` alone, while the worker is parked
  | ["kind", k] => fin (runWorker 16 (resolveKeep keep (applyCfg s { s.cfg with kind := parseKind k } true)))
  | ["hook", n, ps, k] => ({ s with hooks := [(n, { paths := parsePaths ps, kind := parseKind k })] }, out, [])
  -- `hookk:<name>:<kind>`: inside the next watch / unwatch call on that name ONLY `Config::file_watcher` is called
  | ["hookk", n, k] => ({ s with hooks := [(n, { paths := [], kind := parseKind k })] }, out, [n])
  | ["failw", n] => ({ s with failW := n :: s.failW, named := s.named.filter (·.1 != n) }, out, keep)
  -- `failw:<name>:<shape>` / `failu:<name>:<shape>`: what the injected notify error names — `0` nothing, `s` the configured path itself,
  -- `1` one other path (a child), `s1` the configured path and a child, `2` two children
  | ["failw", n, sh] => ({ s with failW := n :: s.failW, named := (n, shapeCount sh) :: s.named.filter (·.1 != n) }, out, keep)
  | ["failu", n, sh] => ({ s with failU := n :: s.failU, named := (n, shapeCount sh) :: s.named.filter (·.1 != n) }, out, keep)
  | ["okw", n] => ({ s with failW := s.failW.filter (· != n) }, out, keep)
  -- `hookn:<kind>` (a kind change from inside the watcher's creation) is outside the model: such scripts are judged by the oracle only
  | ["hookn", _] => (s, out, keep)
  | ["failu", n] => ({ s with failU := n :: s.failU }, out, keep)
  | ["oku", n] => ({ s with failU := s.failU.filter (· != n) }, out, keep)
  | _ => (s, out ++ ["bad-op"], keep)

def handleLine (fx : Fixes) (line : String) : String :=
  match line.splitOn " " with
  | [id, ops] =>
    -- the worker starts, runs its first (empty) iteration and parks before the script begins
    let s0 := runWorker 16 { fx := fx }
    let (_, out, _) := (ops.splitOn ";").foldl stepOp ({ s0 with log := [], errs := 0 }, [], [])
    id ++ " " ++ String.intercalate ";" out
  | _ => "bad-line"


end Wx.Driver.Fs
