import Wx.Fs.Model
namespace Wx.Driver.Fs
open Fw

def parseWP (s : String) : WP :=
  let l := s.toList
  { name := String.ofList l.dropLast, recursive := l.getLast? == some '+' }

def parsePaths (s : String) : List WP := if s.isEmpty then [] else (s.splitOn ",").map parseWP
def parseKind (s : String) : Kind := if s == "P" then .poll else .native

def shapeCount (sh : String) : Nat := if sh == "s" || sh == "1" then 1 else if sh == "s1" || sh == "2" then 2 else 0

def report (s : St) : String × St :=
  let calls := (s.log.toArray.qsort (· < ·)).toList
  let live := match s.watcher with
    | none => "none"
    | some (_, reg) => if reg.isEmpty then "empty" else String.intercalate "," ((reg.map wpStr).toArray.qsort (· < ·)).toList
  (s!"{String.intercalate "," calls}/e{s.errs}/{live}", { s with log := [], errs := 0 })

def stepOp (acc : St × List String) (op : String) : St × List String :=
  let (s, out) := acc
  match op.splitOn ":" with
  | ["set", ps, k] =>
    let s := runWorker 16 (applyCfg s { paths := parsePaths ps, kind := parseKind k } true)
    let (r, s) := report s; (s, out ++ [r])
  | ["poke"] =>
    let s := runWorker 16 { s with ver := s.ver + 1, pendingWake := true }
    let (r, s) := report s; (s, out ++ [r])
  | ["hook", n, ps, k] => ({ s with hooks := [(n, { paths := parsePaths ps, kind := parseKind k })] }, out)
  | ["failw", n] => ({ s with failW := n :: s.failW, named := s.named.filter (·.1 != n) }, out)
  -- `failw:<name>:<shape>` / `failu:<name>:<shape>`: what the injected notify error names — `0` nothing, `s` the configured path itself,
  -- `1` one other path (a child), `s1` the configured path and a child, `2` two children
  | ["failw", n, sh] => ({ s with failW := n :: s.failW, named := (n, shapeCount sh) :: s.named.filter (·.1 != n) }, out)
  | ["failu", n, sh] => ({ s with failU := n :: s.failU, named := (n, shapeCount sh) :: s.named.filter (·.1 != n) }, out)
  | ["okw", n] => ({ s with failW := s.failW.filter (· != n) }, out)
  | ["failu", n] => ({ s with failU := n :: s.failU }, out)
  | _ => (s, out ++ ["bad-op"])

def handleLine (fx : Fixes) (line : String) : String :=
  match line.splitOn " " with
  | [id, ops] =>
    -- the worker starts, runs its first (empty) iteration and parks before the script begins
    let s0 := runWorker 16 { fx := fx }
    let (_, out) := (ops.splitOn ";").foldl stepOp ({ s0 with log := [], errs := 0 }, [])
    id ++ " " ++ String.intercalate ";" out
  | _ => "bad-line"


end Wx.Driver.Fs
