import Wx.Glob.ThrottleRun
/-! Driver for the action-worker model: arrivals with their filter verdicts, zero-latency scheduling
    (every enabled step is taken at the instant it becomes enabled) → batches, error count, filter calls.
    Every loop iteration goes through `Sp.Th.turn`, the function the C01/C02 theorems are about. -/
namespace Wx.Driver.Throttle
open Sp.Th

structure Arr where
  at_ : Nat
  name : String
  ev : Ev

structure Acc where
  now : Nat := 0
  batches : List (List Ev × Nat) := []
  errs : Nat := 0
  filtered : List Ev := []
  turns : List Turn := []        -- every turn taken, in order: the input of the PROVED `Sp.Th.worker`

def mkTurn (thr1 top : Nat) (r : Recv) (t thr2 : Nat) : Turn :=
  { throttle1 := thr1, clock1 := top, recv := r, closedAfter := false, clock2 := t, clock3 := t, throttle2 := thr2 }

/-- the throttle in effect at time `t`: the last change made at or before `t` -/
def thrAt (thr0 : Nat) (changes : List (Nat × Nat)) (t : Nat) : Nat :=
  changes.foldl (fun cur (off, v) => if off ≤ t then v else cur) thr0

/-- run calls of `throttle_collect` until the arrivals are used up and the last window has closed.
    `thr` maps a time to the throttle configured then; each loop iteration reads it at its top and after a push. -/
def sim (thr : Nat → Nat) : Nat → List Arr → TS → Acc → Acc
  | 0, _, _, a => a
  | fuel + 1, arrs, s, a =>
    let finishBatch (st : Step) (a : Acc) (rest : List Arr) : Acc :=
      match st.batch with
      | some (b, at_, _) => sim thr fuel rest { set := [], last := a.now } { a with batches := a.batches ++ [(b, at_)] }
      | none => a
    -- the deadline armed at the top of this iteration
    let top := a.now
    let deadline := s.last + thr top
    let timeoutTurn : Unit → Acc := fun _ =>
      -- the timeout elapses (or the window is already over at the top); the next iteration re-reads the throttle
      let fire := if deadline < top then top else deadline
      let tn := mkTurn (thr top) top .timeout fire (thr fire)
      let st1 := turn s tn
      let a1 := { a with now := fire, turns := a.turns ++ [tn] }
      match st1.next with
      | some s1 => sim thr fuel arrs s1 a1
      | none => finishBatch st1 a1 arrs
    match arrs with
    | [] => if s.set.isEmpty then a else timeoutTurn ()
    | x :: rest =>
      let t := if x.at_ < a.now then a.now else x.at_
      if !s.set.isEmpty && deadline ≤ t then timeoutTurn ()
      else
        let tn := mkTurn (thr top) top (.got x.ev) t (thr t)
        let st := turn s tn
        let a := { a with now := t, errs := a.errs + st.errs.length, filtered := a.filtered ++ st.filtered, turns := a.turns ++ [tn] }
        match st.next with
        | some s' => sim thr fuel rest s' a
        | none => finishBatch st a rest

def parseArr (i : Nat) (s : String) : Arr :=
  match s.splitOn ":" with
  | [off, name, p, k, v] =>
    { at_ := off.toNat!, name := name,
      ev := { id := i, prio := (match p with | "l" => .low | "h" => .high | "u" => .urgent | _ => .normal),
              empty := k == "e", verdict := (match v with | "r" => .reject | "e" => .err | _ => .pass) } }
  | _ => { at_ := 0, name := "?", ev := { id := i, prio := .normal, empty := false, verdict := .pass } }

/-- `<id> <throttle_ms> <handler_ms> <arrivals>` -> `<id> batches=a+b,c errs=n filtered=a+b` -/
def handleLine (line : String) : String :=
  match line.splitOn " " with
  | [id, thr, _, arrs] =>
    let items := arrs.splitOn ","
    let changes : List (Nat × Nat) := items.filterMap (fun s => match s.splitOn ":" with | [off, "T", ms] => some (off.toNat!, ms.toNat!) | _ => none)
    -- `off:T:ms` = a run-time throttle change; `off:F:ms` = a flood of filter-rejected events (they change nothing in the model's run)
    let as := ((items.filter (fun s => match s.splitOn ":" with | [_, "T", _] => false | [_, "F", _] => false | _ => true)).zipIdx).map (fun (s, i) => parseArr i s)
    let nm (e : Ev) : String := (as[e.id]?.map (·.name)).getD "?"
    let r := sim (thrAt thr.toNat! changes) (6 * as.length + 4 * changes.length + 8) as {} {}
    -- what is printed is the run of the PROVED worker loop over the turns the scheduler produced; the scheduler's own
    -- bookkeeping must agree with it (it calls the same `turn`), otherwise the line says so and cannot match the implementation
    let w := worker (r.turns.length + 1) r.turns
    let wb := w.batches.map (·.1)
    if wb != r.batches.map (·.1) || w.errs.length != r.errs || w.filtered != r.filtered then id ++ " MODEL-MISMATCH scheduler vs Sp.Th.worker" else
    id ++ " batches=" ++ ",".intercalate (wb.map (fun b => "+".intercalate (b.map nm)))
      ++ " errs=" ++ toString w.errs.length ++ " filtered=" ++ "+".intercalate (w.filtered.map nm)
  | _ => "bad-line"

end Wx.Driver.Throttle
