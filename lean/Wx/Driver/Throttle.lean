import Wx.Glob.Throttle
/-! Driver for the action-worker model: arrivals with their filter verdicts, zero-latency scheduling
    (every enabled step is taken at the instant it becomes enabled) → batches, error count, filter calls.
    Every loop iteration goes through `Sp.Th.turn`, the function the C01/C02 theorems are about. -/
namespace Wx.Driver.Throttle
open Sp.Th

structure Arr where
  at_ : Nat
  name : String
  ev : Ev

structure Acc where
  now : Nat := 0
  batches : List (List Ev × Nat) := []
  errs : Nat := 0
  filtered : List Ev := []

def mkTurn (thr top : Nat) (r : Recv) (t : Nat) : Turn :=
  { throttle1 := thr, clock1 := top, recv := r, closedAfter := false, clock2 := t, clock3 := t, throttle2 := thr }

/-- run calls of `throttle_collect` until the arrivals are used up and the last window has closed -/
def sim (thr : Nat) : Nat → List Arr → TS → Acc → Acc
  | 0, _, _, a => a
  | fuel + 1, arrs, s, a =>
    let finishBatch (st : Step) (a : Acc) (rest : List Arr) : Acc :=
      match st.batch with
      | some (b, at_, _) => sim thr fuel rest { set := [], last := a.now } { a with batches := a.batches ++ [(b, at_)] }
      | none => a
    let windowClose : Acc :=
      -- the timeout elapses at last + throttle, then the top of the loop sees the window over
      let a1 := { a with now := s.last + thr }
      let st1 := turn s (mkTurn thr a.now .timeout a1.now)
      match st1.next with
      | some s1 =>
        let st2 := turn s1 (mkTurn thr a1.now .timeout a1.now)
        finishBatch st2 a1 arrs
      | none => finishBatch st1 a1 arrs
    match arrs with
    | [] => if s.set.isEmpty then a else windowClose
    | x :: rest =>
      let t := if x.at_ < a.now then a.now else x.at_
      if !s.set.isEmpty && s.last + thr ≤ t then windowClose
      else
        let st := turn s (mkTurn thr a.now (.got x.ev) t)
        let a := { a with now := t, errs := a.errs + st.errs.length, filtered := a.filtered ++ st.filtered }
        match st.next with
        | some s' => sim thr fuel rest s' a
        | none => finishBatch st a rest

def parseArr (i : Nat) (s : String) : Arr :=
  match s.splitOn ":" with
  | [off, name, p, k, v] =>
    { at_ := off.toNat!, name := name,
      ev := { id := i, prio := (match p with | "l" => .low | "h" => .high | "u" => .urgent | _ => .normal),
              empty := k == "e", verdict := (match v with | "r" => .reject | "e" => .err | _ => .pass) } }
  | _ => { at_ := 0, name := "?", ev := { id := i, prio := .normal, empty := false, verdict := .pass } }

/-- `<id> <throttle_ms> <handler_ms> <arrivals>` -> `<id> batches=a+b,c errs=n filtered=a+b` -/
def handleLine (line : String) : String :=
  match line.splitOn " " with
  | [id, thr, _, arrs] =>
    let as := (arrs.splitOn ",").zipIdx.map (fun (s, i) => parseArr i s)
    let nm (e : Ev) : String := (as[e.id]?.map (·.name)).getD "?"
    let r := sim thr.toNat! (4 * as.length + 8) as {} {}
    id ++ " batches=" ++ ",".intercalate (r.batches.map (fun (b, _) => "+".intercalate (b.map nm)))
      ++ " errs=" ++ toString r.errs ++ " filtered=" ++ "+".intercalate (r.filtered.map nm)
  | _ => "bad-line"

end Wx.Driver.Throttle
