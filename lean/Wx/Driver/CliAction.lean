import Wx.Cli.Compose
import Wx.Cli.TimeSpan
/-! Driver for C05: the CLI action logic (`Ca.react`) composed with the job-task simulator (`Jm`).
    A script is `init | chg | a:<ms> | y`; every event makes the action handler enqueue one state-query
    closure (a `func` control with a fresh id ≥ 2000); when the job task executes it, the reaction of
    `Ca.react` is enqueued at that very point; a queue-mode follow-up acts when its wait-for-end ticket resolves. -/
namespace Wx.Driver.CliAction
open Jm Ca

def parseEv (op : String) : Option Ev :=
  match op.splitOn ":" with
  | ["init"] => some .init
  | ["chg"] => some .chg
  | ["sig", n] => some (.sig n.toNat!)
  | ["mix", n] => some (.mix n.toNat!)
  | ["eof"] => some .eof
  | ["y"] => some .settle
  | ["a", ms] => some (.advance ms.toNat!)
  | _ => none

def stepOp (c : C) (op : String) : List C :=
  match parseEv op with
  | some e => stepEv c e
  | none => [c]

def sigOf (s : String) : Option Sig := match s with
  | "SIGHUP" => some 1 | "SIGINT" => some 2 | "SIGQUIT" => some 3 | "SIGKILL" => some 9 | "SIGUSR1" => some 10
  | "SIGUSR2" => some 12 | "SIGTERM" => some 15 | _ => none

/-- `--stop-timeout` / `--delay-run` values (unitless = seconds) through the modelled `TimeSpan` parser, in ms -/
def durMs (s : String) : Nat := ((Ca.Ts.parseSpan Ca.Ts.sMult s.toList).getD 0) / 1000000

def parseCfg (flags : List String) : Cfg :=
  flags.foldl (fun cfg f => match f.splitOn "=" with
    | ["--on-busy-update", "do-nothing"] => { cfg with mode := .doNothing }
    | ["--on-busy-update", "queue"] => { cfg with mode := .queue }
    | ["--on-busy-update", "restart"] => { cfg with mode := .restart }
    | ["--on-busy-update", "signal"] => { cfg with mode := .signal }
    | ["-r"] | ["--restart"] => { cfg with mode := .restart }
    | ["--signal", s] => { cfg with signal := sigOf s, mode := .signal }   -- `--signal` alone implies on-busy-update=signal (normalise)
    | ["--stop-signal", s] => { cfg with stopSignal := sigOf s }
    | ["--stop-timeout", d] => { cfg with stopTimeout := durMs d }
    | ["--stdin-quit"] => { cfg with stdinQuit := true }
    | ["--map-signal", m] =>      -- FROM:TO, TO empty = discard
      (match m.splitOn ":" with
       | [a, b] => (match sigOf a with
          | some f => { cfg with sigMap := cfg.sigMap ++ [(f, if b.isEmpty then none else sigOf b)] }
          | none => cfg)
       | _ => cfg)
    | _ => cfg) {}

def parseBeh (s : String) : Option Beh :=
  match s.toList with
  | 'E' :: r => some (.exitsAfter (String.ofList r).toNat!)
  | 'S' :: r => some (.exitsAfterSignal (String.ofList r).toNat!)
  | ['I'] => some .ignores
  | ['F'] => some .spawnFails
  | _ => none

/-- `<id> <flags,…> <behs> <ops;…>` -> `<id> <trace> [## <trace>…]`; the banner closures (ids ≥ 1000) and tickets are not part of the trace -/
def handleLine (line : String) : String :=
  match line.splitOn " " with
  | [id, flags, behs, ops] =>
    let fl := flags.splitOn ","
    let cfg0 := parseCfg fl
    -- the mode is decided by `normalise`: --signal, else -r, else the explicit mode, else the default
    let explicitMode : Option Mode := fl.findSome? (fun f => match f.splitOn "=" with
      | ["--on-busy-update", "do-nothing"] => some .doNothing | ["--on-busy-update", "queue"] => some .queue
      | ["--on-busy-update", "restart"] => some .restart | ["--on-busy-update", "signal"] => some .signal | _ => none)
    let cfg := { cfg0 with mode := normaliseMode explicitMode (fl.contains "-r" || fl.contains "--restart") cfg0.signal }
    let bs := (behs.splitOn ",").filterMap parseBeh
    let delay := (flags.splitOn ",").findSome? (fun f => match f.splitOn "=" with | ["--delay-run", d] => some (durMs d) | _ => none)
    let init : C := { x := { st := { cfg := Fixes.all, behs := bs, hookSet := true, parked := true } }, cfg := cfg, delayRun := delay }
    let finals := ((ops.splitOn ";") ++ ["y"]).foldl (fun cs op => cs.flatMap (fun c => stepOp c op)) [init]
    let show_ (c : C) : String :=
      let entries := c.x.st.log.reverse.filterMap (fun (t, o) => match o with
        | .func _ _ _ => none | .ticket _ => none | .ended => (if c.quitCount > 0 then some s!"{t}:mainend" else none)
        | o => some s!"{t}:{obsStr o}")
      "|".intercalate entries
    id ++ " " ++ " ## ".intercalate ((finals.map show_).eraseDups)
  | _ => "bad-line"

end Wx.Driver.CliAction
