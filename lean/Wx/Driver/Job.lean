import Wx.Job.Sim
namespace Wx.Driver.Job
open Jm

def sigNum (n : Nat) : Nat := if 1 ≤ n ∧ n ≤ 31 then n else 15

/-- API method name -> (priority, control list), mirrors job.rs -/
def apiCtls (parts : List String) : Option (Prio × List Ctl) :=
  match parts with
  | ["start"] => some (.normal, [.start])
  | ["stop"] => some (.normal, [.stop])
  | ["gstop", g, ms] => some (.normal, [.gracefulStop (sigNum g.toNat!) ms.toNat!])
  | ["restart"] => some (.normal, [.stop, .start])
  | ["grestart", g, ms] => some (.normal, [.gracefulStop (sigNum g.toNat!) ms.toNat!, .start])
  | ["tryrestart"] => some (.normal, [.tryRestart])
  | ["gtryrestart", g, ms] => some (.normal, [.tryGracefulRestart (sigNum g.toNat!) ms.toNat!])
  | ["signal", g] => some (.normal, [.signal (sigNum g.toNat!)])
  | ["towait"] => some (.high, [.nextEnding])
  | ["delete"] => some (.normal, [.stop, .delete])
  | ["deletenow"] => some (.urgent, [.stop, .delete])
  | ["run", id] => some (.normal, [.func id.toNat!])
  | ["continue"] => some (.normal, [.continueTGR])
  | ["seterr"] => some (.normal, [.setErr])
  | ["unseterr"] => some (.normal, [.unsetErr])
  | _ => none

def parseBeh (s : String) : Option Beh :=
  match s.toList with
  | 'E' :: r => some (.exitsAfter (String.ofList r).toNat!)
  | 'S' :: r => some (.exitsAfterSignal (String.ofList r).toNat!)
  | ['I'] => some .ignores
  | ['F'] => some .spawnFails
  | _ => none

def parseOp (s : String) : Option Op :=
  match s.splitOn ":" with
  | "a" :: [ms] => some (.advance ms.toNat!)
  | ["y"] => some .settle
  | ["drop"] => some .dropHandles
  | "s" :: rest => (apiCtls rest).map (fun (p, cs) => .send p cs true)
  | "n" :: rest => (apiCtls rest).map (fun (p, cs) => .send p cs false)
  | _ => none

def cfgOf (s : String) : Fixes := if s == "all" then Fixes.all else Fixes.none

/-- line: `<id> <beh,beh,…> <op;op;…>`  ->  `<id> <trace> [## <trace> …]` (all admissible traces) -/
def handleLine (cfg : Fixes) (line : String) : String :=
  match line.splitOn " " with
  | [id, behs, ops] =>
    let bs := (behs.splitOn ",").filterMap parseBeh
    let os := (ops.splitOn ";").map parseOp
    if os.any Option.isNone then id ++ " bad-op" else
    let os := os.filterMap (·)
    let init : Sim := { st := { cfg := cfg, behs := bs, hookSet := true, parked := true } }
    let finals := runOps init (os ++ [.settle])
    let traces := (finals.map traceStr).eraseDups
    id ++ " " ++ String.intercalate " ## " traces
  | _ => "bad-line"


end Wx.Driver.Job
