import Wx.Job.Sim
import Wx.Job.Api
import Wx.Job.Faults
namespace Wx.Driver.Job
open Jm

def sigNum (n : Nat) : Nat := if 1 ≤ n ∧ n ≤ 31 then n else 15

/-- script spelling of an API call -/
def parseApi (parts : List String) : Option ApiCall :=
  match parts with
  | ["start"] => some .start
  | ["stop"] => some .stop
  | ["gstop", g, ms] => some (.stopWithSignal (sigNum g.toNat!) ms.toNat!)
  | ["restart"] => some .restart
  | ["grestart", g, ms] => some (.restartWithSignal (sigNum g.toNat!) ms.toNat!)
  | ["tryrestart"] => some .tryRestart
  | ["gtryrestart", g, ms] => some (.tryRestartWithSignal (sigNum g.toNat!) ms.toNat!)
  | ["signal", g] => some (.signal (sigNum g.toNat!))
  | ["towait"] => some .toWait
  | ["delete"] => some .delete
  | ["deletenow"] => some .deleteNow
  | ["run", id] => some (.run id.toNat!)
  | ["runasync", id] => some (.runAsync id.toNat!)
  | ["seterrasync"] => some .setAsyncErrorHandler
  | ["sethookasync"] => some .setSpawnAsyncHook
  | ["sethook"] => some .setSpawnHook
  | ["seterr"] => some .setErrorHandler
  | ["unseterr"] => some .unsetErrorHandler
  | _ => none

/-- (priority, control list) of a scripted call: `Jm.apiOf` (tied to the generated table of job.rs by
    `Jm.api_generated`); `continue` is the internal continuation control sent through `Job::control` -/
def apiCtls (parts : List String) : Option (Prio × List Ctl) :=
  match parts with
  | ["continue"] => some (.normal, [.continueTGR])
  | _ => (parseApi parts).map apiOf

def parseBeh (s : String) : Option Beh :=
  match s.toList with
  | 'E' :: r => some (.exitsAfter (String.ofList r).toNat!)
  | 'S' :: r => some (.exitsAfterSignal (String.ofList r).toNat!)
  | ['I'] => some .ignores
  | ['F'] => some .spawnFails
  | _ => none

def parseOp (s : String) : Option Op :=
  match s.splitOn ":" with
  | "a" :: [ms] => some (.advance ms.toNat!)
  | ["y"] => some .settle
  | ["drop"] => some .dropHandles
  | "s" :: rest => (apiCtls rest).map (fun (p, cs) => .send p cs true)
  | "n" :: rest => (apiCtls rest).map (fun (p, cs) => .send p cs false)
  | ["c", w] => some (.clone w.toNat!)
  | "m" :: rest => (apiCtls rest).map (fun (p, cs) => .inject p cs false)
  | "M" :: rest => (apiCtls rest).map (fun (p, cs) => .inject p cs true)
  | _ => none

def cfgOf (s : String) : Fixes := if s == "all" then Fixes.all else Fixes.none

/-- line: `<id> <beh,beh,…> <op;op;…>`  ->  `<id> <trace> [## <trace> …]` (all admissible traces) -/
def handleLine (cfg : Fixes) (line : String) : String :=
  match line.splitOn " " with
  | [id, behs, ops] =>
    let bs := (behs.splitOn ",").filterMap parseBeh
    let os := (ops.splitOn ";").map parseOp
    if os.any Option.isNone then id ++ " bad-op" else
    let os := os.filterMap (·)
    let init : Sim := { st := { cfg := cfg, behs := bs, hookSet := true, parked := true } }
    -- an injected send is followed by the rest of that settle
    let os := os.flatMap (fun o => match o with | .inject .. => [o, .settle] | _ => [o])
    let finals := runOps init (os ++ [.settle])
    let traces := (finals.map traceStr).eraseDups
    id ++ " " ++ String.intercalate " ## " traces
  | _ => "bad-line"

/-- behaviours of the fault scripts: `K<ms>` kill() fails (the child exits by itself after ms; 0 = never), `G` signal()
    fails, `W` the first wait() fails — a plain behaviour plus a fault overlay -/
def parseBehF (s : String) : Option (Beh × Jf.Fault) :=
  match s.toList with
  | 'K' :: r => let d := (String.ofList r).toNat!; some (if d == 0 then .ignores else .exitsAfter d, { kill := true })
  | ['G'] => some (.ignores, { signal := true })
  | ['W'] => some (.ignores, { wait := true })
  | _ => (parseBeh s).map (·, {})

def traceStrF (y : Jf.FSim) : String := traceStr y.x

/-- the `job` line format, run by the fault-aware task `Jf` -/
def handleLineF (cfg : Fixes) (line : String) : String :=
  match line.splitOn " " with
  | [id, behs, ops] =>
    let bfs := (behs.splitOn ",").filterMap parseBehF
    let os := (ops.splitOn ";").map parseOp
    if os.any Option.isNone then id ++ " bad-op" else
    let os := os.filterMap (·)
    let init : Jf.FSim := { x := { st := { cfg := cfg, behs := bfs.map (·.1), hookSet := true, parked := true } }, faults := bfs.map (·.2) }
    let os := os.flatMap (fun o => match o with | .inject .. => [o, .settle] | _ => [o])
    let finals := Jf.runOpsF init (os ++ [.settle])
    let traces := (finals.map traceStrF).eraseDups
    id ++ " " ++ String.intercalate " ## " traces
  | _ => "bad-line"

end Wx.Driver.Job
