import Wx.Pure.Origins
import Wx.Pure.Signals
import Wx.Pure.SerdeTag
import Wx.Driver.Pure
/-! Line-protocol driver for the table properties C16 / C19 / C20.

The field names and enum spellings printed here are the *documented* JSON names (transcribed from
the manual / rustdoc), so a rename in the code shows up as a disagreement. -/
namespace Wx.Driver.Tables
open Wp Wp.Gen Wx.Driver.Pure

def lowerFirst (s : String) : String := match s.toList with | c :: r => String.ofList (c.toLower :: r) | [] => s

def parseNode (s : String) : Node := match s with | "f" => .file | "d" => .dir | _ => .other

def parseListing (s : String) : Listing :=
  if s.isEmpty then [] else (s.splitOn "\x1f").map (fun e => match e.splitOn "^" with
    | [n, k] => (n, parseNode k) | _ => (e, .other))

def parseLevel (s : String) : String × Listing := match s.splitOn "\x1e" with
  | [n, l] => (n, parseListing l) | _ => (s, [])

def sortStr (l : List String) : List String := ((l.toArray.qsort (· < ·)).toList).eraseDups

def orgLine (s : String) : String :=
  let chain := if s.isEmpty then [] else (s.splitOn "\x1d").map parseLevel
  let os := sortStr (originsDoc chain)
  let ts := chain.map (fun (n, l) => n ++ ":" ++ ",".intercalate (sortStr (typesDoc l)))
  "origins=" ++ ",".intercalate os ++ "|types=" ++ ";".intercalate ts

/-! ### signals -/

def sigEnc : Signal → String
  | .hangup => "hangup" | .forceStop => "forceStop" | .interrupt => "interrupt" | .quit => "quit"
  | .terminate => "terminate" | .user1 => "user1" | .user2 => "user2"
  | .custom n => "custom:" ++ toString n

def sigDec (s : String) : Option Signal := match s.splitOn ":" with
  | ["hangup"] => some .hangup | ["forceStop"] => some .forceStop | ["interrupt"] => some .interrupt
  | ["quit"] => some .quit | ["terminate"] => some .terminate | ["user1"] => some .user1 | ["user2"] => some .user2
  | ["custom", n] => n.toInt?.map Signal.custom
  | _ => none

def sigFull (s : Signal) : String :=
  sigEnc s ++ ":nix=" ++ (match toNix s with | some n => toString n | none => "-") ++ ":disp=" ++ String.ofList (display s)

def pendEnc : ProcessEnd → String
  | .success => "success" | .exitError c => "error:" ++ toString c | .exitSignal s => "signal:" ++ sigEnc s
  | .exitStop c => "stop:" ++ toString c | .continued => "continued"

/-! ### tags -/

def ftName : FileType → String | .file => "file" | .dir => "dir" | .symlink => "symlink" | .other => "other"
def ftParse : String → Option FileType | "file" => some .file | "dir" => some .dir | "symlink" => some .symlink | "other" => some .other | _ => none
def srcName : Wp.Source → String | .filesystem => "filesystem" | .keyboard => "keyboard" | .mouse => "mouse" | .os => "os" | .time => "time" | .internal => "internal"
def srcParse : String → Option Wp.Source | "filesystem" => some .filesystem | "keyboard" => some .keyboard | "mouse" => some .mouse | "os" => some .os | "time" => some .time | "internal" => some .internal | _ => none
def kindName : TagKind → String | .none => "none" | .path => "path" | .fs => "fs" | .source => "source" | .keyboard => "keyboard" | .process => "process" | .signal => "signal" | .completion => "completion"
def kindParse : String → Option TagKind | "none" => some .none | "path" => some .path | "fs" => some .fs | "source" => some .source | "keyboard" => some .keyboard | "process" => some .process | "signal" => some .signal | "completion" => some .completion | _ => none
def dispName : Disp → String | .unknown => "unknown" | .success => "success" | .error => "error" | .signal => "signal" | .stop => "stop" | .exception => "exception" | .continued => "continued"
def dispParse : String → Option Disp | "unknown" => some .unknown | "success" => some .success | "error" => some .error | "signal" => some .signal | "stop" => some .stop | "exception" => some .exception | "continued" => some .continued | _ => none
def simpleName : FsSimple → String | .access => "access" | .create => "create" | .modify => "modify" | .remove => "remove" | .other => "other"
def simpleParse : String → Option FsSimple | "access" => some .access | "create" => some .create | "modify" => some .modify | "remove" => some .remove | "other" => some .other | _ => none

def pend2Enc : PEnd → String
  | .success => "success" | .exitError c => "error:" ++ toString c | .exitSignal s => "signal:" ++ sigEnc s
  | .exitStop c => "stop:" ++ toString c | .exception c => "exception:" ++ toString c | .continued => "continued"

def tagEnc : Tag → String
  | .path p ft => "path:" ++ hx p ++ ":" ++ (match ft with | some f => ftName f | none => "-")
  | .fek k => "fek:" ++ String.ofList k.dbg
  | .source s => "source:" ++ srcName s
  | .keyboard _ => "keyboard:eof"
  | .process pid => "process:" ++ toString pid
  | .signal s => "signal:" ++ sigEnc s
  | .completion none => "completion:none"
  | .completion (some e) => "completion:" ++ pend2Enc e
  | .unknown => "unknown"

def tagDec (s : String) : Option Tag :=
  match s.splitOn ":" with
  | ["path", p, ft] => some (.path (unhx p) (ftParse ft))
  | ["fek", k] => some (.fek (decodeKind k.toList))
  | ["source", x] => (srcParse x).map Tag.source
  | ["keyboard", _] => some (.keyboard .eof)
  | ["process", n] => n.toNat?.map Tag.process
  | "signal" :: r => (sigDec (":".intercalate r)).map Tag.signal
  | ["completion", "none"] => some (.completion none)
  | ["completion", "success"] => some (.completion (some .success))
  | ["completion", "continued"] => some (.completion (some .continued))
  | ["completion", "error", c] => c.toInt?.map (fun c => .completion (some (.exitError c)))
  | ["completion", "stop", c] => c.toInt?.map (fun c => .completion (some (.exitStop c)))
  | ["completion", "exception", c] => c.toInt?.map (fun c => .completion (some (.exception c)))
  | "completion" :: "signal" :: r => (sigDec (":".intercalate r)).map (fun s => .completion (some (.exitSignal s)))
  | ["unknown"] => some .unknown
  | _ => none

/-- canonical rendering of a `SerdeTag`: present fields only, in declaration order -/
def serdeEnc (v : SerdeTag) : String :=
  let f (k : String) (o : Option String) : List String := match o with | some x => [k ++ "=" ++ x] | none => []
  ";".intercalate (["kind=" ++ kindName v.kind] ++ f "absolute" (v.absolute.map hx) ++ f "filetype" (v.filetype.map ftName)
    ++ f "simple" (v.simple.map simpleName) ++ f "full" (v.full.map hx) ++ f "source" (v.source.map srcName)
    ++ f "keycode" (v.keycode.map (fun _ => "eof")) ++ f "pid" (v.pid.map toString) ++ f "signal" (v.signal.map sigEnc)
    ++ f "disposition" (v.disposition.map dispName) ++ f "code" (v.code.map toString))

def serdeDec (s : String) : Option SerdeTag :=
  (s.splitOn ";").foldl (fun acc kv => acc.bind (fun (v : SerdeTag) =>
    match kv.splitOn "=" with
    | ["kind", x] => (kindParse x).map (fun k => { v with kind := k })
    | ["absolute", x] => some { v with absolute := some (unhx x) }
    | ["filetype", x] => (ftParse x).map (fun k => { v with filetype := some k })
    | ["simple", x] => (simpleParse x).map (fun k => { v with simple := some k })
    | ["full", x] => some { v with full := some (unhx x) }
    | ["source", x] => (srcParse x).map (fun k => { v with source := some k })
    | ["keycode", _] => some { v with keycode := some .eof }
    | ["pid", x] => x.toNat?.map (fun k => { v with pid := some k })
    | ["signal", x] => (sigDec x).map (fun k => { v with signal := some k })
    | ["disposition", x] => (dispParse x).map (fun k => { v with disposition := some k })
    | ["code", x] => x.toInt?.map (fun k => { v with code := some k })
    | _ => none)) (some {})

def handleLine (line : String) : String :=
  match line.splitOn "\t" with
  | ["ORG", s] => orgLine s
  | ["SIGP", h] => (match parse (unhx h) with | some s => "ok:" ++ sigFull s | none => "err")
  | ["SIGN", n] => (match n.toInt? with | some n => sigFull (fromI32 n) | none => "bad-op")
  | ["ST", n] => (match n.toNat? with | some n => pendEnc (fromStatus n) | none => "bad-op")
  | ["ENC", t] => (match tagDec t with | some t => serdeEnc (encode t) | none => "bad-op")
  | ["EVT", _] => "-"
  | ["DEC", v] => (match serdeDec v with | some v => tagEnc (decode v) | none => "bad-op")
  | _ => "bad-op"

end Wx.Driver.Tables
