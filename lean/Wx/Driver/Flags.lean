import Wx.Cli.C12
/-! Driver for C12: flag mask -> verdict of each probe of the harness fixture, from `C12.configure`. -/
namespace Wx.Driver.Flags
open C12

def v (ignored : Bool) : String := if ignored then "ign" else "pass"

def handleLine (line : String) : String :=
  match line.splitOn "\t" with
  | ["FLAGS", gc, m] =>
    let n := m.toNat!
    -- bit order of the harness: no-vcs, no-project, no-global, no-default, no-discover, ignore-nothing
    let f : Flags := ⟨n.testBit 0, n.testBit 1, n.testBit 2, n.testBit 3, n.testBit 4, n.testBit 5⟩
    let o := configure ⟨true, gc == "1", gc != "3"⟩ f
    let has (s : Src) := o.igfiles.contains s
    let ex := explicitHonoured o.igfiles
    let a := s!"gg:{v (has .globalVcs)} ga:{v (has .globalPlain)} pv:{v (has .projectVcs)} pg:{v (has .projectPlain)} gc:{v (has .gitConfigExcludes)} ex:{v ex} pyc:{v o.defaultIgnores} ip:{v o.ignorePatterns} ok:pass keep:{v (!ex)} kpyc:{v (!o.ignorePatterns)}"
    let b := s!"fl:{v (!o.filters)} ok:{v o.filters} ex:ign"
    let c := s!"ff:{v (!o.filters)} ok:{v o.filters}"
    let d := s!"rs:{v (!o.exts)} toml:{v (!o.exts)} brs:{v o.ignorePatterns} ok:{v o.exts}"
    let e := s!"create:{v (!o.fsEvents)} modify:{v o.fsEvents}"
    -- each explicit option alone
    let f1 := s!"rs:{v (!o.exts)} toml:{v (!o.exts)} ok:{v o.exts}"
    let f2 := s!"fl:{v (!o.filters)} ok:{v o.filters}"
    -- `keep.pyc` is ignored by a built-in default (`*.py[co]`) and re-included by `--ignore '!keep.pyc'`, which comes after the defaults
    let f3 := s!"ip:{v o.ignorePatterns} ok:pass kpyc:{v (!o.ignorePatterns)}"
    -- `keep.gg` is ignored by the global git excludes (`*.gg`) and re-included by the explicit file's `!keep.gg`, which is listed after them
    let f4 := s!"ex:{v ex} ok:pass keep:{v (!ex)}"
    "|".intercalate [a, b, c, d, e, f1, f2, f3, f4]
  | _ => "bad-op"

end Wx.Driver.Flags
