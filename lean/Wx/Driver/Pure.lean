import Wx.Pure.Summary
import Wx.Pure.C16
import Wx.Pure.Spawn
namespace Wx.Driver.Pure
open Wp

def parseP (s : String) : P :=
  let l := s.toList
  { abs := l.head? == some '/', comps := ((s.splitOn "/").filter (· ≠ "")).map String.toList }

def parseFT (s : String) : Option FT := match s with | "d" => some .dir | "f" => some .file | "s" => some .symlink | "o" => some .other | _ => none

def parseEv (s : String) : Ev :=
  match s.splitOn "\x1e" with
  | [ps, ks] =>
    let paths := if ps.isEmpty then [] else (ps.splitOn "\x1f").map (fun x => match x.splitOn "^" with
      | [p, ft] => (parseP p, parseFT ft) | _ => (parseP x, none))
    let kinds := if ks.isEmpty then [] else (ks.splitOn "\x1f").map (fun k => decodeKind k.toList)
    { paths := paths, kinds := kinds }
  | _ => { paths := [], kinds := [] }

def hexVal (c : Char) : Nat := if c.isDigit then c.toNat - 48 else c.toNat - 87
def unhex : List Char → List Char
  | a :: b :: r => Char.ofNat (hexVal a * 16 + hexVal b) :: unhex r
  | _ => []
def hexDigit (n : Nat) : Char := if n < 10 then Char.ofNat (48 + n) else Char.ofNat (87 + n)
def hx (s : List Char) : String := "x" ++ String.ofList (s.flatMap (fun c => [hexDigit (c.toNat / 16), hexDigit (c.toNat % 16)]))
def unhx (s : String) : List Char := unhex (s.toList.drop 1)
def unhxl (s : String) : List (List Char) := if s.isEmpty then [] else (s.splitOn " ").map unhx
def flags (s : String) : SpawnOptions := match s.toList with
  | [g, se, r] => { grouped := g == '1', session := se == '1', resetSigmask := r == '1' }
  | _ => { grouped := false, session := false, resetSigmask := false }
def wname : Wrapper → String | .killOnDrop => "K" | .processSession => "S" | .processGroupLeader => "G" | .resetSigmask => "R"
def libOut (p : Program) (o : SpawnOptions) : String :=
  "argv=" ++ " ".intercalate ((argv p).map hx) ++ " wraps=" ++ ",".intercalate ((wrappers o).map wname)

def handleLine (line : String) : String :=
  match line.splitOn "\t" with
  | ["SUM", evs] =>
    let es := if evs.isEmpty then [] else (evs.splitOn "\x1d").map parseEv
    let (c, vars) := summarise es
    let cs := match c with | some p => String.ofList p.render | none => "-"
    let vs := vars.map (fun (b, l) => b ++ "=" ++ String.intercalate ":" (l.map String.ofList))
    "COMMON=" ++ cs ++ "|" ++ String.intercalate "|" vs ++ "||" ++ String.intercalate ";" ((simpleFormat es).map String.ofList)
  | ["LIB", "E", prog, args, fl] => libOut (.exec (unhx prog) (unhxl args)) (flags fl)
  | ["LIB", "S", prog, opts, po, cmd, args, fl] =>
    libOut (.shell { prog := unhx prog, options := unhxl opts, programOption := if po == "-" then none else some (unhx po) } (unhx cmd) (unhxl args)) (flags fl)
  | ["CLI", ns, sh, esh, wrap, words] =>
    -- what the CLI hands to the supervisor: interpret_command_args, then to_spawnable
    let o (x : String) : Option Str := if x == "-" then none else some (unhx x)
    let a : CliCmd := { program := unhxl words, noShell := ns == "1", shell := o sh, envShell := o esh,
                        wrap := match wrap with | "s" => .session | "n" => .none | _ => .group }   -- the default is group
    match interpret a with
    | .ok (p, opts) => libOut p opts
    | .error _ => "config-error:empty-shell"
  | _ => "bad-op"


end Wx.Driver.Pure
