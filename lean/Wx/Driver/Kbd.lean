import Wx.Kb.Model
/-! Driver for the keyboard-source stream: `<id> <op;op;…>` with ops `on | off | t (another configuration value changes) | d | c | y` -> `<id> eof=<n> tasks=<k>`
    (EOF events the action handler must have seen, `watch_stdin` tasks spawned). The harness settles once more at the end. -/
namespace Wx.Driver.Kbd
open Kb

def parseOp (s : String) : Option Op :=
  match s with
  | "on" => some (.set true) | "off" => some (.set false) | "t" => some .poke | "d" => some .data | "c" => some .close | "y" => some .settle
  | _ => none

def handleLine (line : String) : String :=
  match line.splitOn " " with
  | [id, ops] =>
    match (ops.splitOn ";").mapM parseOp with
    | some os =>
      let s := run init (os ++ [.settle])
      s!"{id} eof={s.delivered}"
    | none => "bad-op"
  | _ => "bad-line"

end Wx.Driver.Kbd
