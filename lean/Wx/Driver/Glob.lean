import Wx.Glob.Glob
import Wx.Glob.IgnoreFilter
import Wx.Glob.Discover
import Wx.Glob.C11Inst
import Wx.Disc.Concrete
namespace Wx.Driver.Glob
open Sp.Glob Sp.IF Sp.Disc Sp.GS

def verdict (globs : List GGlob) : M → String
  | .none => "none"
  | .ignore i => "ignore:" ++ String.ofList ((globs[i]?.map (·.original)).getD [])
  | .whitelist i => "whitelist:" ++ String.ofList ((globs[i]?.map (·.original)).getD [])

def globCase (root isdir mode path pats : String) : String :=
  let lines := if pats.isEmpty then [] else pats.splitOn "\x1f"
  let parsed := lines.map (fun l => addLine l.toList)
  if parsed.any (fun x => match x with | some none => true | _ => false) then "error" else
  let globs := parsed.filterMap (fun x => x.bind id)
  let isDir := isdir == "1"
  let m := if mode == "m" then matched root.toList globs path.toList isDir
           else matchedOrParents root.toList globs path.toList isDir
  verdict globs m

def resStr : Res → String
  | .none => "none"
  | .ignore o _ => "ignore:" ++ String.ofList o
  | .whitelist o _ => "whitelist:" ++ String.ofList o

def parseFiles (s : String) : List (Option (List Char) × List (List Char)) :=
  if s.isEmpty then [] else
  (s.splitOn "\x1d").map (fun f =>
    match f.splitOn "\x1e" with
    | [ai, ls] => (if ai == "-" then none else some ai.toList, if ls.isEmpty then [] else (ls.splitOn "\x1f").map String.toList)
    | _ => (none, []))

def filterCase (origin mode files probes : String) : String :=
  let fs := parseFiles files
  let built : Option Filter :=
    if mode == "new" || mode == "spec" then Filter.new origin.toList fs
    else fs.foldl (fun acc (ai, ls) => acc.bind (fun f => f.add ai ls)) (Filter.new origin.toList [])
  match built with
  | none => "error"
  | some f =>
    let ps := if probes.isEmpty then [] else probes.splitOn "\x1d"
    String.intercalate ";" (ps.map (fun p =>
      match p.splitOn "\x1e" with
      | [path, d] =>
        if mode == "spec" || mode == "specadd" then
          (if f.unspecified path.toList (d == "1") then "unspecified" else resStr (f.specMatch path.toList (d == "1")))
        else resStr (f.matchFix path.toList (d == "1")) ++ "/" ++ toString (f.checkDirFix path.toList)
      | _ => "bad-probe"))

def parsePairs (s : String) : List (List Char × List (List Char)) :=
  if s.isEmpty then [] else
  (s.splitOn "\x1d").map (fun f =>
    match f.splitOn "\x1e" with
    | [k, vs] => (k.toList, if vs.isEmpty then [] else (vs.splitOn "\x1f").map String.toList)
    | [k] => (k.toList, [])
    | _ => ([], []))

def discCase (origin watches children igfiles explicit : String) : String :=
  let t : Tree := { children := parsePairs children, igfiles := parsePairs igfiles }
  let ws := if watches.isEmpty then [] else (watches.splitOn "\x1f").map String.toList
  let ex := if explicit.isEmpty then [] else (explicit.splitOn "\x1f").map String.toList
  match fromOriginFix t origin.toList ws ex with
  | none => "error"
  | some fs => String.intercalate ";" (fs.map (fun f => String.ofList f.path ++ "@" ++ String.ofList (f.appliesIn.getD ['-'])))

def lst (s : String) : List (List Char) := if s.isEmpty then [] else (s.splitOn "\x1f").map String.toList

def gsCase (origin filters ignores whitelist files exts events : String) : String :=
  let pf := (lst filters).filterMap (fun l => (addLine l).bind id)
  let pi := (lst ignores).filterMap (fun l => (addLine l).bind id)
  match Filter.new origin.toList (parseFiles files) with
  | none => "error"
  | some f =>
    let g : GF := { origin := origin.toList, filters := pf, ignores := pi, whitelist := lst whitelist, igf := f, exts := (lst exts).map (fun e => e.drop 2) }
    let evs := if events.isEmpty then [] else events.splitOn "\x1d"
    String.intercalate ";" (evs.map (fun e =>
      let tags := if e == "-" then [] else (e.splitOn "\x1f").map (fun t =>
        match t.splitOn "\x1e" with
        | [p, d] => ({ path := p.toList, isDir := d == "1" } : PTag)
        | _ => { path := [], isDir := false })
      toString (checkEventC g tags)))

def handleLine (line : String) : String :=
  match line.splitOn "\t" with
  | ["G", root, isdir, mode, path, pats] => globCase root isdir mode path pats
  | ["IF", origin, mode, files, probes] => filterCase origin mode files probes
  | ["GS", origin, filters, ignores, whitelist, files, exts, events] => gsCase origin filters ignores whitelist files exts events
  | ["DISC", origin, watches, children, igfiles, explicit] => discCase origin watches children igfiles explicit
  | ["DSPEC", origin, watches, children, igfiles, explicit] =>
    let t : Tree := { children := parsePairs children, igfiles := parsePairs igfiles }
    let ws := if watches.isEmpty then [] else (watches.splitOn "\x1f").map String.toList
    let ex := if explicit.isEmpty then [] else (explicit.splitOn "\x1f").map String.toList
    String.intercalate ";" (((specDiscover t origin.toList ws ex).map String.ofList).toArray.qsort (· < ·)).toList
  | ["DPROVED", origin, watches, children, igfiles, explicit] =>
    let t : Tree := { children := parsePairs children, igfiles := parsePairs igfiles }
    let ws := if watches.isEmpty then [] else (watches.splitOn "\x1f").map String.toList
    let ex := if explicit.isEmpty then [] else (explicit.splitOn "\x1f").map String.toList
    String.intercalate ";" (((Dw.discoverB t origin.toList ws ex).map String.ofList).toArray.qsort (· < ·)).toList
  | _ => "bad-op"


end Wx.Driver.Glob
