import Wx.Fs.Source
namespace Wx.Driver.FsReal
open Fsrc

/-- `Q` = the root recursively, with an event queue of 2 and a slow handler (overflow) -/
def parseMode (s : String) : Mode := if s == "R" || s == "Q" then .R else if s == "N" then .N else .F

def parseOp (failed : Bool) (s : String) : Op :=
  if failed then .failed else
  match s.splitOn ":" with
  | ["burst", _] => .failed      -- more events than the queue holds: some are lost (runtime errors), nothing is owed
  | ["w", p] => .write (comps p)
  | ["mv", p, q] => .move (comps p) (comps q)
  | [_, p] => .touch (comps p)
  | _ => .failed

def parseSeg (s : String) : Bool × List (List String) :=
  let failed := s.startsWith "!"
  let body := if failed then (s.drop 1).toString else s
  (failed, (body.splitOn ",").filter (· ≠ "") |>.map comps)

/-- line: `FR <kind> <mode> <ops> <delivered segments>` → per op `ok` / `missing:<p>` / `forbidden:<p>`, joined by `|` -/
def handleLine (line : String) : String :=
  match line.splitOn "\t" with
  | ["FR", kind, mode, ops, segs] =>
    let m := parseMode mode
    let poll := kind == "P"
    let os := ops.splitOn ";"
    let ss := (segs.splitOn "|").map parseSeg
    let rec go (os : List String) (ss : List (Bool × List (List String))) (acc : List String) (fuel : Nat) : List String :=
      match fuel, os, ss with
      | 0, _, _ => acc.reverse
      | _, [], _ => acc.reverse
      | _, _, [] => acc.reverse
      | f + 1, o :: orest, (failed, got) :: srest =>
        let next := match srest with | (_, n) :: _ => n | [] => []
        go orest srest (((segOk m poll (parseOp failed o) got next).getD "ok") :: acc) f
    String.intercalate "|" (go os ss [] 1000)
  | _ => "bad-line"

end Wx.Driver.FsReal
