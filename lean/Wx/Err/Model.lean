/-! C15: the runtime-error path — bounded mpsc channel, `error_hook`, handler behaviours. -/
namespace Eh

inductive Err where
  | sent (worker : Nat) (i : Nat)     -- `errors.send(e).await` by the action / fs worker
  | tried (i : Nat)                   -- `try_send` from the watcher callback
  | exit                              -- RuntimeError::Exit (graceful-exit request)
  deriving DecidableEq, Repr

inductive HB | ignore | elevate | critical | replace deriving DecidableEq, Repr
inductive End | exit | elevated (e : Err) | critical deriving DecidableEq, Repr

structure St where
  cap : Nat
  chan : List Err := []
  blocked : List Err := []          -- senders waiting for a permit, oldest first (tokio's semaphore is fair)
  delivered : List (Nat × Err) := []  -- handler calls: (handler generation, error)
  gen : Nat := 0                    -- bumped when the handler replaces itself
  calls : Nat := 0
  behs : List HB := []
  ended : Option End := none
  droppedTry : List Err := []
  sentLog : List Err := []          -- ghost: every `send` so far, in order
  deriving Repr

inductive Op | send (w i : Nat) | sendExit | trySend (i : Nat) | hookTurn deriving Repr

def refill (s : St) : St :=
  match s.blocked with
  | e :: r => if s.chan.length < s.cap then { s with chan := s.chan ++ [e], blocked := r } else s
  | [] => s

def step (s : St) : Op → St
  | .send w i =>
    let e := Err.sent w i
    let s := { s with sentLog := s.sentLog ++ [e] }
    if s.chan.length < s.cap ∧ s.blocked = [] then { s with chan := s.chan ++ [e] } else { s with blocked := s.blocked ++ [e] }
  | .sendExit =>
    let s := { s with sentLog := s.sentLog ++ [Err.exit] }
    if s.chan.length < s.cap ∧ s.blocked = [] then { s with chan := s.chan ++ [Err.exit] } else { s with blocked := s.blocked ++ [Err.exit] }
  | .trySend i =>
    if s.chan.length < s.cap ∧ s.blocked = [] then { s with chan := s.chan ++ [.tried i] }
    else { s with droppedTry := s.droppedTry ++ [.tried i] }
  | .hookTurn =>
    if s.ended.isSome then s else
    match s.chan with
    | [] => s
    | e :: r =>
      let s := refill { s with chan := r }
      if e = Err.exit then { s with ended := some End.exit } else
      let b := s.behs[s.calls]?.getD .ignore
      let s := { s with delivered := s.delivered ++ [(s.gen, e)], calls := s.calls + 1 }
      match b with
      | .ignore => s
      | .replace => { s with gen := s.gen + 1 }
      | .elevate => { s with ended := some (.elevated e) }
      | .critical => { s with ended := some .critical }

def run (s : St) (ops : List Op) : St := ops.foldl step s

end Eh
