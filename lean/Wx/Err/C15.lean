import Wx.Err.Model
namespace Eh

def isSent : Err → Bool | .tried _ => false | _ => true

/-- every error handed to `send().await` is, in order and exactly once, either already taken by the
    error hook, in the channel, or held by its still-waiting sender — for every capacity and burst -/
def Conserved (s : St) (taken : List Err) : Prop :=
  (taken ++ s.chan ++ s.blocked).filter isSent = s.sentLog

/-- the errors the hook has taken: handler calls, plus an `exit` if that is how it ended -/
def St.taken (s : St) : List Err := s.delivered.map (·.2) ++ (if s.ended = some End.exit then [Err.exit] else [])

theorem refill_keeps (s : St) : (refill s).chan ++ (refill s).blocked = s.chan ++ s.blocked ∧
    (refill s).delivered = s.delivered ∧ (refill s).ended = s.ended ∧ (refill s).sentLog = s.sentLog ∧
    (refill s).calls = s.calls ∧ (refill s).gen = s.gen ∧ (refill s).behs = s.behs := by
  unfold refill
  split
  · next e r hb =>
    split
    · simp [hb]
    · simp
  · simp

/-- invariant: while running, conservation; once ended by `exit`, the `exit` is accounted for -/
def Inv (s : St) : Prop :=
  (s.ended ≠ some End.exit → Conserved s (s.delivered.map (·.2))) ∧
  (s.ended = some End.exit → Conserved s (s.delivered.map (·.2) ++ [Err.exit])) ∧
  (∀ g e, (g, e) ∈ s.delivered → e ≠ Err.exit)

theorem inv_step (s : St) (o : Op) (h : Inv s) (hrun : s.ended = none) : Inv (step s o) := by
  have hc : Conserved s (s.delivered.map (·.2)) := h.1 (by rw [hrun]; simp)
  unfold Conserved at hc
  cases o with
  | send w i =>
    simp only [step]
    split <;> refine ⟨fun _ => ?_, fun he => by simp [hrun] at he, h.2.2⟩ <;>
      simp only [Conserved, List.filter_append, List.append_assoc] at hc ⊢ <;>
      (try simp_all [isSent, List.filter_append]) <;> (try (rw [← hc]; simp [isSent, List.append_assoc]))
  | sendExit =>
    simp only [step]
    split <;> refine ⟨fun _ => ?_, fun he => by simp [hrun] at he, h.2.2⟩ <;>
      simp only [Conserved, List.filter_append, List.append_assoc] at hc ⊢ <;>
      (try simp_all [isSent, List.filter_append]) <;> (try (rw [← hc]; simp [isSent, List.append_assoc]))
  | trySend i =>
    simp only [step]
    split <;> refine ⟨fun _ => ?_, fun he => by simp [hrun] at he, h.2.2⟩ <;>
      simp only [Conserved, List.filter_append, List.append_assoc] at hc ⊢ <;>
      (try simp_all [isSent, List.filter_append]) <;> (try (rw [← hc]; simp [isSent, List.append_assoc]))
  | hookTurn =>
    have hnot : s.ended.isSome = false := by rw [hrun]; rfl
    simp only [step, hnot, Bool.false_eq_true, if_false]
    cases hch : s.chan with
    | nil => simp only []; exact h
    | cons e r =>
      simp only []
      obtain ⟨k1, k2, k3, k4, k5, k6, k7⟩ := refill_keeps { s with chan := r }
      generalize refill { s with chan := r } = t at k1 k2 k3 k4 k5 k6 k7
      simp only [] at k1 k2 k3 k4
      have base : (s.delivered.map (·.2) ++ [e] ++ t.chan ++ t.blocked).filter isSent = t.sentLog := by
        rw [k4, ← hc, hch]
        simp only [List.append_assoc]
        rw [k1]; simp
      by_cases he : e = Err.exit
      · subst he
        simp only [if_true]
        refine ⟨fun hne => by simp at hne, fun _ => ?_, fun g e' hm => h.2.2 g e' (by rw [← k2]; exact hm)⟩
        simp only [Conserved, k2]
        simpa [List.append_assoc] using base
      · simp only [he, if_false]
        have hdel : ∀ g e', (g, e') ∈ t.delivered ++ [(t.gen, e)] → e' ≠ Err.exit := by
          intro g e' hm
          rcases List.mem_append.1 hm with hm | hm
          · exact h.2.2 g e' (by rw [← k2]; exact hm)
          · simp only [List.mem_singleton, Prod.mk.injEq] at hm; rw [hm.2]; exact he
        have cons' : Conserved { t with delivered := t.delivered ++ [(t.gen, e)], calls := t.calls + 1 }
            ((t.delivered ++ [(t.gen, e)]).map (·.2)) := by
          simp only [Conserved, k2, List.map_append, List.map_cons, List.map_nil]
          simpa [List.append_assoc] using base
        split
        · exact ⟨fun _ => cons', fun hx => by simp [k3, hrun] at hx, hdel⟩
        · exact ⟨fun _ => cons', fun hx => by simp [k3, hrun] at hx, hdel⟩
        · exact ⟨fun _ => cons', fun hx => by simp at hx, hdel⟩
        · exact ⟨fun _ => cons', fun hx => by simp at hx, hdel⟩


theorem inv_init (cap : Nat) (behs : List HB) : Inv { cap := cap, behs := behs } :=
  ⟨fun _ => rfl, fun h => by simp at h, fun g e h => by simp at h⟩

/-- once the hook has ended (elevated, critical, or exit) it takes nothing more -/
theorem ended_stops (s : St) (h : s.ended.isSome = true) : step s .hookTurn = s := by simp [step, h]

/-- the handler's verdict decides the end: elevation or a critical error ends the hook with it,
    anything else keeps it running -/
theorem hook_end (s : St) (e : Err) (r : List Err) (hrun : s.ended = none) (hc : s.chan = e :: r) (he : e ≠ Err.exit) :
    (step s .hookTurn).ended =
      match s.behs[s.calls]?.getD .ignore with
      | .elevate => some (.elevated e) | .critical => some .critical | _ => none := by
  have hnot : s.ended.isSome = false := by rw [hrun]; rfl
  obtain ⟨_, _, k3, _, k5, _, k7⟩ := refill_keeps { s with chan := r }
  simp only [step, hnot, Bool.false_eq_true, if_false, hc, he]
  generalize refill { s with chan := r } = t at k3 k5 k7
  simp only [] at k3 k5 k7
  rw [k5, k7]
  cases s.behs[s.calls]?.getD .ignore <;> simp [k3, hrun]

/-- **C15 (exactly once, in order, nothing dropped)** for every capacity, burst and handler script:
    while the hook runs, the errors sent with `send().await` are exactly — in order, each once —
    those the handler was called with, those in the channel and those whose senders still wait. -/
theorem c15_conserved (cap : Nat) (behs : List HB) (ops : List Op) :
    let s := run { cap := cap, behs := behs } ops
    s.ended = none → ((s.delivered.map (·.2)) ++ s.chan ++ s.blocked).filter isSent = s.sentLog := by
  intro s hrun
  have sticky1 : ∀ (t : St) (o : Op), t.ended.isSome = true → (step t o).ended = t.ended := by
    intro t o hsome
    cases o <;> simp [step, hsome] <;> split <;> rfl
  have sticky : ∀ (ops : List Op) (t : St), t.ended.isSome = true → (run t ops).ended = t.ended := by
    intro ops
    induction ops with
    | nil => intro t _; rfl
    | cons o ops ih =>
      intro t ht
      simp only [run, List.foldl_cons]
      have h1 := sticky1 t o ht
      have := ih (step t o) (by rw [h1]; exact ht)
      simp only [run] at this
      rw [this, h1]
  have key : ∀ (ops : List Op) (s0 : St), Inv s0 → s0.ended = none → (run s0 ops).ended = none → Inv (run s0 ops) := by
    intro ops
    induction ops with
    | nil => intro s0 h _ _; exact h
    | cons o ops ih =>
      intro s0 h h0 hr
      simp only [run, List.foldl_cons] at hr ⊢
      have hi := inv_step s0 o h h0
      by_cases hmid : (step s0 o).ended = none
      · exact ih _ hi hmid hr
      · exfalso
        have hsome : (step s0 o).ended.isSome = true := by
          cases hx : (step s0 o).ended <;> simp_all
        have := sticky ops (step s0 o) hsome
        simp only [run] at this
        rw [this] at hr; exact hmid hr
  exact (key ops _ (inv_init cap behs) rfl hrun).1 (by rw [hrun]; simp)

#print axioms c15_conserved
end Eh
