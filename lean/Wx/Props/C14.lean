import Wx.Disc.C14
import Wx.Disc.C14wf
import Wx.Glob.C03
import Wx.Disc.C14Inst
/-! # C14 — Ignore-file discovery finds exactly the applicable files and prunes ignored dirs

> Discovery from a project origin returns every non-empty .gitignore, .ignore and .hgignore, plus the origin-level
> VCS-specific files, located in a directory reachable from the origin without entering a directory that the ignore files
> above it ignore or a VCS metadata directory, each tagged with the directory it applies in. It returns nothing from
> inside ignored subtrees or, when explicit watch paths are given, from directories unrelated to them, and the result does
> not depend on directory listing order.

Model `Dw` (Wx/Disc/Walk.lean): the tree is a mutual inductive (`T.node name kids`), the walker `visit` threads ONE growing
list `L` of directories whose ignore files are loaded (judge the directory with `ign L d`, then load it, then its children one
after another — siblings' subtrees included), the specification `sv` judges each directory with its PROPER ANCESTORS only.
The filter is a parameter (`Env`) with the scoping law that C03 proves for the real `match_path`
(`Props.C03.proper_ancestors_suffice`). The real stack-and-skip-list walk is tied to this recursion by the discover stream. -/
namespace Props.C14
open Dw

/-- **walker = specification**: with the node's ancestors loaded, the walker's loaded set is `L` plus exactly the
    directories the specification discovers -/
theorem walker_computes_the_specification (e : Env) (t : T) (L anc : List Dir) (par : Dir) (h : AncOk L anc par) :
    ∀ x, x ∈ visit e L par t ↔ x ∈ L ∨ x ∈ sv e anc par t := visit_spec e t L anc par h

/-- **independent of listing order** — at every depth -/
theorem independent_of_listing_order (e : Env) (t t' : T) (h : TEq t t') (anc : List Dir) (par : Dir) :
    ∀ x, x ∈ sv e anc par t ↔ x ∈ sv e anc par t' := sv_order e t t' h anc par

/-- **sound**: every discovered directory, and every directory between it and the start, is related to the watch list and
    not ignored by its proper ancestors' files — nothing from inside an ignored or unrelated subtree -/
theorem nothing_from_ignored_subtrees (e : Env) (t : T) (anc : List Dir) (par : Dir) (ha : ∀ a, a ∈ anc ↔ a <+: par) :
    ∀ x ∈ sv e anc par t, ∀ y, y <+: x → par.length < y.length →
      ∀ A, (∀ a, a ∈ A ↔ properAnc a y = true) → e.ign A y = false ∧ e.related y = true := sv_sound e t anc par ha

/-- **complete**: every directory of the tree all of whose ancestors (below the start) are related and not ignored is discovered -/
theorem every_applicable_directory_found (e : Env) (t : T) (anc : List Dir) (par : Dir) (ha : ∀ a, a ∈ anc ↔ a <+: par) :
    ∀ x ∈ paths par t,
      (∀ y, y <+: x → par.length < y.length → ∃ A, (∀ a, a ∈ A ↔ properAnc a y = true) ∧ e.ign A y = false ∧ e.related y = true) →
      x ∈ sv e anc par t := sv_complete e t anc par ha

/-- the version the concrete filter satisfies: the scoping law is only required for directories that are not loaded
    themselves (a directory's own files, which may contain `*`, are loaded after it has been judged), on well-formed trees -/
theorem walker_computes_the_specification' (e : Env') (t : T) (L anc : List Dir) (par : Dir) (h : AncOk L anc par) (hw : wf t = true)
    (hf : ∀ x ∈ L, ¬ (par ++ [t.name]) <+: x) : ∀ x, x ∈ visit' e L par t ↔ x ∈ L ∨ x ∈ sv' e anc par t := visit_spec' e t L anc par h hw hf

/-- **C14 ∘ C03**: instantiate the filter with C03's specification of `match_path` (nearest-ancestor-first over the loaded
    directories, `nv k d` = what the files stored in `k` say about `d`): the scoping law is C03's theorem, and the walker
    computes the discovery specification -/
theorem with_the_real_filter_semantics (nv : Dir → Dir → Option Bool) (rel : Dir → Bool) (t : T) (L anc : List Dir) (par : Dir)
    (h : AncOk L anc par) (hw : wf t = true) (hf : ∀ x ∈ L, ¬ (par ++ [t.name]) <+: x) :
    ∀ x, x ∈ visit' (specEnv nv rel) L par t ↔ x ∈ L ∨ x ∈ sv' (specEnv nv rel) anc par t :=
  discovery_with_c03_filter nv rel t L anc par h hw hf

end Props.C14
