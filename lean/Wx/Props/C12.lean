import Wx.Cli.C12
/-! # C12 — Explicit CLI filters are honoured under every mix of ignore-discovery flags

> Patterns and files given explicitly on the command line (--ignore, --ignore-file, --filter, --filter-file, --exts,
> --fs-events) affect filtering in the same way whichever of --no-vcs-ignore, --no-project-ignore, --no-global-ignore,
> --no-default-ignore, --no-discover-ignore and --ignore-nothing are also given. Those flags remove exactly the
> discovered or built-in ignore sources they name and no others.

`assemble` models the CLI's assembly of ignore files by provenance class (`Args::normalise`, the short-circuit in
filterer.rs, the three filters of dirs.rs), `configure` the whole filterer configuration; `gitCfg` says whether the
project has a `core.excludesFile` of its own. Every quantifier ranges over all 64 flag combinations. -/
namespace Props.C12
open _root_.C12

/-- **explicit kept**: the explicit ignore file, `--ignore`, `--filter`/`--filter-file`, `--exts`, `--fs-events` reach the
    filterer under all 64 combinations (with and without a project git config); the built-in defaults go exactly with
    `--no-default-ignore` / `--ignore-nothing` -/
theorem explicit_options_always_reach_the_filterer : ∀ a b c d e g gc : Bool,
    let o := configure ⟨true, gc, true⟩ ⟨a, b, c, d, e, g⟩
    explicitHonoured o.igfiles = true ∧ o.ignorePatterns = true ∧ o.filters = true ∧ o.exts = true ∧ o.fsEvents = true ∧
    o.defaultIgnores = !(d || g) := c12_explicit_all

/-- **exact removal**: a discovered source reaches the filterer iff no set flag names it -/
theorem flags_remove_exactly_what_they_name : ∀ a b c d e g : Bool, ∀ s ∈ discovered,
    (assemble ⟨true, false, true⟩ ⟨a, b, c, d, e, g⟩).contains s = !removedBy ⟨a, b, c, d, e, g⟩ s := c12_exact

/-- the same with a project-level `core.excludesFile`: it is removed exactly by the flags naming it, and it replaces the
    global git excludes whenever the project's git config is read -/
theorem with_project_git_config : ∀ a b c d e g : Bool,
    let f : Flags := ⟨a, b, c, d, e, g⟩
    let l := assemble ⟨true, true, true⟩ f
    l.contains .gitConfigExcludes = !removedBy f .gitConfigExcludes ∧
    l.contains .globalVcs = (!removedBy f .globalVcs && f.norm.noProject) ∧
    (∀ s ∈ [Src.projectVcs, .projectPlain, .globalPlain], l.contains s = !removedBy f s) := c12_exact_gitcfg

/-- kernel-checked count kept from before the repair of F9: the explicit file was lost in 52 of 64 combinations; now in none -/
theorem explicit_file_lost_before_repair_only : lost {} = 52 ∧ lost ⟨true, false, true⟩ = 0 ∧ lost ⟨true, true, true⟩ = 0 :=
  ⟨c12_today_52, c12_fixed_0.1, c12_fixed_0.2⟩

end Props.C12
