import Wx.Job.C08
import Wx.Job.C08b
import Wx.Job.C06
import Wx.Job.C08t
import Wx.Job.C08m
import Wx.Cli.SignalPrioThm
import Wx.Cli.Action
import Wx.Reg.Thm
/-! # C08 — Quit always terminates and leaves no supervised process behind

> After the action handler requests a quit the main task finishes within a bounded time whatever the jobs are doing:
> promptly for an abort, and for a graceful quit no later than the grace periods then in effect plus a small margin.
> No process started by a job survives the shutdown, including the other members of its process group after a graceful
> quit of a grouped command, and in the CLI an interrupt or terminate signal leads to exactly this shutdown.

A graceful quit is, per job, `stop_with_signal(sig, grace)` then `delete().await` = `[GracefulStop]` then `[Stop, Delete]`
in the normal queue; the worker then joins every job task. The statements below are per job, followed by the composition
over the job map (`main_task_done_after_largest_deadline`); abort (`KillOnDrop`) and real process groups are checked by the
quit-sim / quit-real streams (see DESIGN.md §12 and known findings F15a, F15b). -/
namespace Props.C08
open Jm

/-- **the trailing Delete finds nothing alive** (every fix configuration, every history of API-shaped sends): whenever a
    Delete queued directly behind a Stop is at the head of the normal queue, nothing is running, nothing is un-reaped,
    and handling it ends the task -/
theorem delete_after_stop_ends_clean (cfg : Fixes) (behs : List Beh) (ops : List Op) (hok : ∀ o ∈ ops, OpOkFor ShapeOk o) :
    ∀ y ∈ runOps { st := { cfg := cfg, behs := behs, hookSet := true, parked := true } } ops,
      ∀ (f : FlagId) (r : List Msg), y.st.normal = ⟨.delete, f⟩ :: r → isStop y.st.lastNormal = true →
        NotRunning y.st ∧ y.st.live = [] ∧ (handle y.st ⟨.delete, f⟩).alive = false := c08_delete_after_stop cfg behs ops hok

/-- **no new process during a graceful quit** (repaired code): between the quit's GracefulStop and the next normal control
    the restart slot is empty and any armed timer is a stop timer, so when the Delete becomes receivable nothing runs -/
theorem delete_after_graceful_stop_ends_clean (behs : List Beh) (ops : List Op) (hok : ∀ o ∈ ops, OpOkFor ShapeOk o) :
    ∀ y ∈ runOps { st := { cfg := Fixes.all, behs := behs, hookSet := true, parked := true } } ops,
      ∀ (f : FlagId) (r : List Msg), Src.normal ∈ recvCandidates y.st → y.st.normal = ⟨.delete, f⟩ :: r → isGS y.st.lastNormal = true →
        NotRunning y.st ∧ y.st.live = [] ∧ (handle y.st ⟨.delete, f⟩).alive = false := c08_delete_idle behs ops hok

/-- **the bound's ingredients**: the quit's signal goes out in the step that handles it and arms `now + grace`; at the
    deadline the kill is the only candidate and it reaps in that turn (so a job ends no later than the remaining armed
    grace period plus the quit's own) -/
theorem bound_ingredients (s : St) (c : ChildId) (sig : Sig) (grace : Nat) (f : FlagId) (h : s.cs = .running c) :
    handle s ⟨.gracefulStop sig grace, f⟩ = { s.signalChild c sig with timer := some ⟨s.now + grace, f, false⟩ } :=
  graceful_stop_step s c sig grace f h

/-- what F4 did to a quit before the repair (kernel-checked): a third process was started during the shutdown -/
theorem stale_restart_slot_spawned_during_quit :
    (runOps { st := { parked := true, behs := [.ignores, .exitsAfterSignal 5, .ignores] } }
      [.send .normal [.start] false, .settle, .send .normal [.tryGracefulRestart 15 10] false, .advance 50,
       .send .normal [.gracefulStop 15 10] false, .send .normal [.delete] true, .advance 100]).map (fun x => (x.st.alive, x.st.live)) = [(false, [2])] :=
  c08_fails_today

/-- **the time bound, per job**: after the worker's quit sequence (GracefulStop, then Stop + Delete) the job task is gone
    whenever the clock shows more than: the expiry of the grace timer armed at the quit (or the quit instant), plus the
    grace periods of graceful controls still queued, plus the quit's own grace period — for every continuation: every race
    resolution, any passage of time, further sends without a grace period, handle drops -/
theorem job_gone_after_deadline (x : Sim) (hcfg : x.st.cfg = Fixes.all) (hgone : x.st.isRaised 0 = false) (sig : Sig) (g : Nat)
    (ops : List Op) (hops : ∀ o ∈ ops, OpOkFor2 NoGrace o) :
    ∀ y ∈ runOps (doSend (doSend x .normal [.gracefulStop sig g] false) .normal [.stop, .delete] false) ops,
      deadline x.st + g < y.st.now → y.st.alive = false := c08_quit_bound x hcfg hgone sig g ops hops

/-- an idle job with nothing armed and nothing queued has deadline = now: the quit then takes at most its own grace period -/
theorem idle_deadline (s : St) (ht : s.timer = none) (hn : s.normal = []) (hh : s.high = []) (hu : s.urgent = []) : deadline s = s.now := by
  simp [deadline, base, queued, gsum, ht, hn, hh, hu]

/-- **no deadlock on the way**: an alive job with a non-empty normal queue that takes no turn is waiting for an armed,
    unexpired grace timer — nothing else ever holds a control back -/
theorem only_a_grace_timer_holds_controls_back {s : St} (hcfg : s.cfg = Fixes.all) (hal : s.alive = true) (hne : s.normal ≠ [])
    (hidle : turns s = []) : ∃ tm, s.timer = some tm ∧ s.now < tm.until_ := idle_timer hcfg hal hne hidle

/-- **the main task, any number of jobs**: one run per job after the quit (`Finals`), read at a common instant `T`; each job
    in any state of the repaired code — still reachable or already ended — and continuing with any history that carries no
    further grace period. Once `T` is later than the LARGEST per-job bound (deadline at the quit + the quit's grace period; 0
    for an ended task) no job task is alive, which is when both `join_all`s of the worker's quit branch have returned. -/
theorem main_task_done_after_largest_deadline (sig : Sig) (g : Nat) (jobs : List (Sim × List Op)) (hj : ∀ j ∈ jobs, JobOk j)
    (ys : List Sim) (hf : Finals sig g jobs ys) (T : Nat) (hT : ∀ y ∈ ys, y.st.now = T)
    (hlt : mainBound (jobs.map (·.1)) g < T) : ∀ y ∈ ys, y.st.alive = false := c08_main_bound sig g jobs hj ys hf T hT hlt

/-- a job task that has ended never comes back, whatever is sent to it, polled on it or dropped afterwards -/
theorem ended_task_stays_ended (x : Sim) (h : x.st.alive = false) (ops : List Op) : ∀ y ∈ runOps x ops, y.st.alive = false :=
  dead_stays_dead x h ops

/-- **in the CLI an interrupt or terminate signal leads to this shutdown at once**: the signal source sends INT and TERM as
    URGENT events (table regenerated from sources/signal.rs on every run) — unfiltered, and flushing the pending batch in the
    turn they are received (`Sp.Th.turn_urgent`), so the handler's quit decision (`Ca.onSignals`) is not held up by the window -/
theorem interrupt_and_terminate_travel_urgent :
    Wp.signalPriority "Interrupt" = "Urgent" ∧ Wp.signalPriority "Terminate" = "Urgent" := Wp.interrupt_and_terminate_are_urgent

/-- **which jobs the quit reaches** (`action/worker.rs` registry, `action/handler.rs`, `id.rs`; model `Rg`): for every script of
    actions — jobs created on any OS threads, ids minted on any threads, get-or-create asked for any held id any number of times in
    the same or in later actions, jobs deleted in between — every job ever started is in the worker's registry or has ended, so
    the graceful quit stops every live one (`leaked = []`) and the main task joins no task the quit did not stop (`hung = []`) -/
theorem quit_reaches_every_job (script : List (List Rg.Op × List Nat)) :
    Rg.leaked (Rg.run (Rg.init { f19 := true }) script) = [] ∧ Rg.hung (Rg.run (Rg.init { f19 := true }) script) = [] :=
  Rg.no_job_outside_the_registry script

/-- **promptly for an abort, nothing left behind**: the worker holds the task of every job ever started, so dropping its task set
    (which aborts them all; the children die with their tasks) reaches every one -/
theorem abort_reaches_every_job (script : List (List Rg.Op × List Nat)) :
    Rg.abortLeaked (Rg.run (Rg.init { f19 := true }) script) = [] := Rg.abort_reaches_every_job_task script

/-- … which the code before the repair F19 did not do: the same new id asked for twice within one action started two jobs, the
    first of which was never registered -/
theorem quit_missed_a_job_before_F19 : Rg.leaked (Rg.run (Rg.init { f19 := false }) [([.mint 0, .goc 0, .goc 0], [])]) = [0] :=
  Rg.get_or_create_twice_leaks_today

/-- **`--map-signal`**: an interrupt or terminate the user mapped does not quit — the command gets what it was mapped to, or nothing;
    one that is not mapped quits whatever else is mapped (`first_interrupt_quits_gracefully` has exactly that premise) -/
theorem mapped_interrupt_is_for_the_command (cfg : Ca.Cfg) (n : Nat) (sigs : List Jm.Sig)
    (ht : Ca.term ∈ sigs → (Ca.mapped cfg Ca.term).isSome) (hi : Ca.sigInt ∈ sigs → (Ca.mapped cfg Ca.sigInt).isSome) :
    Ca.onSignals cfg n sigs = .pass (Ca.translate cfg sigs) := Ca.mapped_interrupt_does_not_quit cfg n sigs ht hi

theorem unmapped_interrupt_quits_gracefully (cfg : Ca.Cfg) (sigs : List Jm.Sig)
    (h : (Ca.term ∈ sigs ∧ Ca.mapped cfg Ca.term = none) ∨ (Ca.sigInt ∈ sigs ∧ Ca.mapped cfg Ca.sigInt = none)) :
    Ca.onSignals cfg 0 sigs = .quit (.graceful (cfg.stopSignal.getD Ca.term) cfg.stopTimeout) := Ca.first_interrupt_quits_gracefully cfg sigs h

end Props.C08
