import Wx.Job.FaultsThm
import Wx.Job.C10b
import Wx.Job.C10c
import Wx.Job.ApiThm
/-! # C10 — Controls run in send order within a priority; urgent before high before normal

> Controls sent with the same priority are executed in the order they were sent, each exactly once, so awaiting the last
> ticket implies every earlier control has run. Pending urgent controls run before pending high-priority ones and those
> before normal ones, which is what lets delete-now and wait-for-end overtake queued work; nothing else is reordered.

`sent` / `taken` are ghost logs of the flags enqueued per queue and of the flags `recv` has returned. -/
namespace Props.C10
open Jm

/-- **FIFO, exactly once** (every fix configuration, every history): per queue, what `recv` has returned followed by what
    is still queued is exactly what was sent — nothing lost, duplicated or reordered -/
theorem fifo (cfg : Fixes) (behs : List Beh) (ops : List Op) :
    ∀ y ∈ runOps { st := { cfg := cfg, behs := behs, hookSet := true, parked := true } } ops, Fifo y.st := c10_fifo cfg behs ops

/-- **priority** (biased receive): a normal control is returned only with no grace timer armed and nothing urgent or
    high pending; a high one only with nothing urgent pending; the timer's own message only once its period is over -/
theorem priority {s : St} (hf7 : s.cfg.f7 = true) :
    (Src.normal ∈ recvCandidates s → s.timer = none ∧ s.urgent = [] ∧ s.high = []) ∧
    (Src.high ∈ recvCandidates s → s.urgent = []) ∧
    (Src.timer ∈ recvCandidates s → ∃ t, s.timer = some t ∧ t.until_ ≤ s.now) :=
  ⟨fun h => c10_priority hf7 h, fun h => c10_priority hf7 h, fun h => c10_priority hf7 h⟩

/-- **awaiting the last ticket implies the earlier controls have run**: a raised flag (other than the job's `gone`)
    belongs to a control `recv` has already returned, and what has been returned from a queue is a prefix of what was sent to it -/
theorem raised_means_taken (cfg : Fixes) (behs : List Beh) (ops : List Op) :
    ∀ y ∈ runOps { st := { cfg := cfg, behs := behs, hookSet := true, parked := true } } ops,
      (∀ f, y.st.isRaised f = true → f = 0 ∨ f ∈ y.st.taken.map (·.2)) ∧
      (∀ q, q ≠ Src.timer → proj y.st.taken q <+: proj y.st.sent q) := c10_ran cfg behs ops

/-- the priorities of the public API are the ones of the source (regenerated table): delete-now urgent, wait-for-end high -/
theorem api_priorities : (apiOf .deleteNow).1 = .urgent ∧ (apiOf .toWait).1 = .high ∧ (apiOf .delete).1 = .normal ∧
    lookupApi "delete_now" = some ("Urgent", ["Stop", "Delete"]) ∧ lookupApi "to_wait" = some ("High", ["NextEnding"]) :=
  ⟨rfl, rfl, rfl, api_generated .deleteNow, api_generated .toWait⟩

/-- the witness kept from before the repair of F7: with an unbiased select a normal control is a candidate while an urgent one is pending -/
theorem unbiased_select_violates : ∃ s : St, s.cfg = Fixes.none ∧ s.urgent ≠ [] ∧ Src.normal ∈ recvCandidates s := c10_priority_fails_today

/-- **… and when kill / signal / wait calls on the child fail** (the fault-aware task `Jf`, Wx/Job/Faults.lean): a failed call
    ends its control and reorders nothing — per queue, taken ++ still queued = sent, in send order, for every fault script -/
theorem order_kept_under_faults (cfg : Fixes) (behs : List Beh) (faults : List Jf.Fault) (ops : List Op) :
    ∀ z ∈ Jf.runOpsF (Jf.initialF cfg behs faults) ops, ∀ q, q ≠ Src.timer →
      proj z.x.st.taken q ++ z.x.st.qv.ids q = proj z.x.st.sent q := fun z hz => Jf.c10_faults cfg behs faults ops z hz

end Props.C10
