import Wx.Glob.IgnoreFilterC
import Wx.Glob.GlobPath
/-! # C03 — Ignore files apply only inside their directory; the nearest match wins

> A path is ignored exactly when git-style evaluation of the ignore files of its ancestor directories, nearest directory
> first, then farther ones, then global files, yields an ignore. An ignore file never changes the verdict for a path
> outside the directory it applies in, even when that directory's name is a textual prefix of the path's directory
> (test/ versus tests/), and a negated pattern re-includes only paths inside its own directory.

`Sp.IF.Filter` is the string-level model of `IgnoreFilter` (nodes keyed by directory display strings, the trie lookup =
longest key that is a *string* prefix). `matchFix` is `match_path` as it is in /repo now; `specMatchC` evaluates the
nodes of the *component-wise* ancestors of the path, nearest first (`Sp.C03.spec`). The per-node verdict function is a
parameter of the core theorems, so they do not depend on the glob matcher model. -/
namespace Props.C03
open Sp.IF Sp.C03 Sp.Pfx

/-- **refinement**: `match_path` is nearest-component-ancestor-first evaluation — every filter, path and file type -/
theorem match_is_spec (f : Filter) (path : Str) (isDir : Bool) : f.matchFix path isDir = f.specMatchC path isDir :=
  matchPathC_eq_spec f path isDir

/-- **scoping**: two filters with the same origin whose nodes agree on the component-wise ancestors of `path` give the
    same verdict for `path` — whatever other nodes (sibling directories, `test/` next to `tests/`, negations included)
    one of them has and the other has not -/
theorem only_ancestors_matter (f f' : Filter) (path : Str) (isDir : Bool) (ho : f.origin = f'.origin)
    (hk : ∀ k, k <+: splitComps path → (k ∈ f.keys ↔ k ∈ f'.keys))
    (hv : ∀ k, k <+: splitComps path → f.ev (compPrefix f.origin path) path isDir k = f'.ev (compPrefix f.origin path) path isDir k) :
    f.matchFix path isDir = f'.matchFix path isDir := by
  rw [match_is_spec, match_is_spec]
  unfold Filter.specMatchC
  rw [← ho, spec_keys_congr f.keys f'.keys _ _ hk, spec_congr f'.keys _ _ _ hv]

/-- the core of the refinement, for any key set, any probe and ANY per-node verdict function: the lookup loop (longest
    string prefix, component check, hop to the parent) equals evaluation over the component ancestors, nearest first -/
theorem loop_is_spec {V : Type} (keys : List Key) (ev : Key → Option V) (p : CPath) (hk : ∀ k ∈ keys, okPath k) (hp : okPath p) :
    go keys ev p (p.length + 1) (body p) = spec keys ev p := go_eq_spec keys ev p hk hp

/-- a directory's own ignore files are never consulted for verdicts about paths that do not lie below it: restricting
    the key set to the proper ancestors of `d` changes nothing for `d` (what discovery, C14, relies on) -/
theorem proper_ancestors_suffice {V : Type} (L : List Key) (ev : Key → Option V) (d : CPath) (hd : d ∉ L) :
    spec L ev d = spec (L.filter (fun a => a.isPrefixOf d && a != d)) ev d := scoping_law L ev d hd

/-- the string-prefix / component-prefix gap, exactly: if the display string of `k` is a string prefix of that of `s`,
    then `k` and `s` agree up to `k`'s last component, which is a string prefix of the corresponding component of `s` -/
theorem prefix_gap {k s : CPath} (hk : okPath k) (hs : okPath s) (hne : k ≠ []) (h : body k <+: body s) :
    ∃ k0 c c' rest, k = k0 ++ [c] ∧ s = k0 ++ c' :: rest ∧ c <+: c' := body_prefix_shape hk hs hne h

/-- kernel-checked witness kept from before the repair of F12: the old loop let `/o/test` decide `/o/tests/f` -/
theorem old_loop_leaked :
    let keys : List Key := [[], ["o".toList], ["o".toList, "test".toList]]
    let ev : Key → Option Nat := fun k => if k = ["o".toList, "test".toList] then some 1 else if k = ["o".toList] then some 0 else none
    let p : CPath := ["o".toList, "tests".toList, "f".toList]
    goOld keys ev (p.length + 1) (body p) = some 1 ∧ spec keys ev p = some 0 := goOld_ne_spec

/-! ### what one ignore file does with a slash-free line

The verdict function `ev` above is a parameter. For the concrete matcher (`Sp.Glob`, tied to the real `ignore` crate by the
glob stream) the most common kind of line is characterised completely: -/
open Sp.Glob in
/-- the line `name` in an ignore file ignores exactly the paths below the file's directory that HAVE a component `name` —
    the path itself or any directory above it (`matched_path_or_any_parents`) — for every clean name, every relative
    path (given by its components), file or directory; `tests/x` is not touched by `test` -/
theorem slash_free_line_ignores_its_subtrees (n orig root path : List Char) (hn : Clean n) (cs : List (List Char)) (hne : cs ≠ [])
    (hcs : ∀ x ∈ cs, Comp x) (hstrip : strip root path = join cs) (isDir : Bool) :
    matchedOrParents root [nameGlob orig n] path isDir ≠ .none ↔ ∃ c ∈ cs, c = n :=
  name_ignores_iff n orig root path hn cs hne hcs hstrip isDir

open Sp.Glob in
/-- … and `nameGlob` is what `add_line` makes of that line -/
theorem slash_free_line_is_nameGlob (n : List Char) (hn : Clean n) : addLine n = some (some (nameGlob n n)) := by
  have := addLine_name false false n hn
  simpa [nameGlob] using this

end Props.C03
