import Wx.Job.C06
import Wx.Job.C07b
import Wx.Job.C10b
import Wx.Job.ApiThm
import Wx.Job.C06w
/-! # C06 — Graceful stop: signal first, no kill before the grace period, kill at expiry

> A graceful stop or restart delivers the requested signal to the running process immediately, never force-kills it
> before the grace period has elapsed, and force-kills and reaps it when the grace period elapses if it is still
> running. Until the process has ended later normal-priority controls are held back, and in a graceful restart the
> replacement starts only after the old process has ended and starts exactly once.

Time is virtual (`St.now`); "immediately" / "at expiry" are statements about the step that handles the control / the
first `recv` at or after the deadline (eager scheduler = the paused-clock runtime of the harness). -/
namespace Props.C06
open Jm

/-- **signal first**: handling a graceful stop of a running job logs the signal at `now`, arms the timer for exactly
    `now + grace` with the control's flag, and does nothing else (no kill, state stays running) -/
theorem signal_first_stop (s : St) (c : ChildId) (sig : Sig) (grace : Nat) (f : FlagId) (h : s.cs = .running c) :
    handle s ⟨.gracefulStop sig grace, f⟩ = { s.signalChild c sig with timer := some ⟨s.now + grace, f, false⟩ } ∧
    (s.signalChild c sig).log = (s.now, .signal c sig) :: s.log :=
  ⟨graceful_stop_step s c sig grace f h, signalChild_log s c sig⟩

theorem signal_first_restart (s : St) (c : ChildId) (sig : Sig) (grace : Nat) (f : FlagId) (h : s.cs = .running c) :
    handle s ⟨.tryGracefulRestart sig grace, f⟩ =
      { s.signalChild c sig with timer := some ⟨s.now + grace, f, true⟩, onEndRestart := some f } :=
  graceful_restart_step s c sig grace f h

/-- **no kill before the grace period has elapsed**: while `now < until` the timer's kill message is not a candidate of `recv` -/
theorem no_early_kill (s : St) (t : Timer) (hf7 : s.cfg.f7 = true) (ht : s.timer = some t) (he : s.now < t.until_) :
    Src.timer ∉ recvCandidates s := timer_not_early s t hf7 ht he

/-- **held back**: while a grace timer is armed no normal-priority control is dequeued -/
theorem normal_controls_held_back (s : St) (t : Timer) (hf7 : s.cfg.f7 = true) (ht : s.timer = some t) :
    Src.normal ∉ recvCandidates s := held_back s t hf7 ht

/-- **kill at expiry**: at or after the deadline the timer's message is the ONLY candidate, and for a graceful stop it
    is a plain stop: kill, reap (status 9), `finished`, timer cleared, flag raised — in that turn -/
theorem kill_at_expiry (s : St) (t : Timer) (c : ChildId) (ch : Child) (hf7 : s.cfg.f7 = true) (ht : s.timer = some t)
    (he : t.until_ ≤ s.now) (hr : t.isRestart = false) (hc : s.cs = .running c) (hch : s.child? c = some ch) :
    recvCandidates s = [.timer] ∧
    ∃ s1, takeFrom s .timer = some (⟨.stop, t.done⟩, s1) ∧ s1.timer = none ∧
      (handle s1 ⟨.stop, t.done⟩).cs = .finished 9 ∧ (handle s1 ⟨.stop, t.done⟩).isRaised t.done = true :=
  ⟨timer_fires s t hf7 ht he, expiry_kills s t c ch ht hr hc hch⟩

/-- **restart exactly once**: the restart slot exists exactly while its restart timer is armed (every history of
    API-shaped sends), and the expiry continuation empties it — so the natural-exit path and the expiry path cannot both respawn -/
theorem restart_once (behs : List Beh) (ops : List Op) (hok : ∀ o ∈ ops, OpOk o) :
    (∀ y ∈ runOps { st := { cfg := Fixes.all, behs := behs, hookSet := true, parked := true } } ops, Coupled y.st) ∧
    (∀ (s : St) (f : FlagId), s.cfg.f4 = true → (handle s ⟨.continueTGR, f⟩).onEndRestart = none) :=
  ⟨fun y hy => (c07_noLost behs ops hok y hy).2, fun s f h => continue_clears s f h⟩

/-- restart-with-signal is GracefulStop then Start in ONE send (regenerated API table): Start sits behind the graceful
    stop in the normal queue and is held back until the old process has ended -/
theorem graceful_restart_api : ∀ g ms, apiOf (.restartWithSignal g ms) = (.normal, [.gracefulStop g ms, .start]) := fun _ _ => rfl

/-- the pair of kernel-checked runs around F4: three spawns before the repair, two after -/
theorem extra_respawn_before_repair_only :
    ((runOps { st := { behs := [.ignores, .exitsAfter 50, .ignores], hookSet := false, parked := true } }
      [.send .normal [.start] false, .settle, .send .normal [.tryGracefulRestart 15 10] false, .advance 100]).map (·.st.spawnCount) = [3]) ∧
    ((runOps { st := { cfg := Fixes.all, behs := [.ignores, .exitsAfter 50, .ignores], hookSet := false, parked := true } }
      [.send .normal [.start] false, .settle, .send .normal [.tryGracefulRestart 15 10] false, .advance 100]).map (·.st.spawnCount) = [2]) :=
  ⟨extra_respawn_today, no_extra_respawn_fixed⟩

/-- **no kill before the grace period, over whole runs**: in every reachable state of every history of graceful
    controls (any priority, any grace periods ≥ `G`, any child behaviour, any timing, every race resolution) each kill
    in the log comes at least `G` after a signal to the same child -/
theorem never_killed_early (G : Nat) (behs : List Beh) (ops : List Op) (hops : GentleOps G ops) :
    let x0 : Sim := { st := { cfg := Fixes.all, behs := behs, hookSet := true, parked := true } }
    ∀ y ∈ runOps x0 ops, ∀ t c, (t, Obs.kill c) ∈ y.st.log →
      ∃ t0 sig, (t0, Obs.signal c sig) ∈ y.st.log ∧ t0 + G ≤ t := c06_no_early_kill G behs ops hops

/-- an armed grace timer always belongs to the running child and never expires earlier than `G` after its signal -/
theorem timer_never_short (G : Nat) (behs : List Beh) (ops : List Op) (hops : GentleOps G ops) :
    let x0 : Sim := { st := { cfg := Fixes.all, behs := behs, hookSet := true, parked := true } }
    ∀ y ∈ runOps x0 ops, ∀ tm, y.st.timer = some tm →
      ∃ c t0 sig, y.st.cs = .running c ∧ (t0, Obs.signal c sig) ∈ y.st.log ∧ t0 + G ≤ tm.until_ := c06_timer_not_short G behs ops hops

/-- what a script must look like for the two theorems above: nothing forceful, grace ≥ G (here G = 50) -/
example : GentleOps 50 [.send .normal [.start] false, .settle, .send .high [.gracefulStop 15 50, .start] true, .advance 60,
    .send .normal [.tryGracefulRestart 1 70, .signal 10, .nextEnding] false, .dropHandles] := by
  intro o ho
  simp only [List.mem_cons, List.mem_nil_iff, or_false] at ho
  rcases ho with rfl | rfl | rfl | rfl | rfl | rfl <;> simp [OpOkFor2, Gentle]

end Props.C06
