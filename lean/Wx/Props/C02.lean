import Wx.Glob.ThrottleRun
import Wx.Cli.TimeSpanThm
/-! # C02 — Debounce: one action per window, never before the window has elapsed

> A batch made only of non-urgent events is handed to the action handler no earlier than the configured throttle
> duration after its first event was received, and all accepted events that arrive within that window are in that same
> batch. An urgent event flushes the current batch immediately and is not filtered, and the batch is delivered within a
> bounded delay after the window ends even if rejected events keep arriving.

Every clock reading and every throttle reading is an input of the turn, so the statements hold for every throttle
(zero, changing between or within turns) and every clock. -/
namespace Props.C02
open Sp.Th

/-- **never early** (whole run): every batch without urgent events that the handler ever gets left in a turn whose
    throttle reading had elapsed since `l`, and `l` is the clock reading taken right after that batch's first event was received -/
theorem never_before_the_window_has_elapsed (fuel : Nat) (ts : List Turn) :
    ∀ x ∈ (worker fuel ts).batches, (∀ e ∈ x.1, e.prio ≠ .urgent) →
      (∃ t ∈ ts, t.throttle1 ≤ x.2.1 - x.2.2 ∨ t.throttle2 ≤ x.2.1 - x.2.2) ∧
      (∃ t ∈ ts, ∃ e, t.recv = .got e ∧ x.2.2 = t.clock2 ∧ x.1.head? = some e) := worker_bound fuel ts

/-- **one window, one batch**: the batch a call returns is everything accepted since the call began (so two accepted
    events of one window are never split over two handler calls) -/
theorem one_batch_per_window (s : TS) (ts : List Turn) (b at_ l) (h : (collect s ts).batch = some (b, at_, l)) :
    b = s.set ++ (collect s ts).received.filter accepted ∧ b ≠ [] := collect_conserve s ts b at_ l h

/-- **urgent flushes, unfiltered**: an urgent event returns the pending set plus itself in its own turn and is not shown to the filter -/
theorem urgent_flushes_immediately (s : TS) (t : Turn) (e : Ev) (hr : t.recv = .got e) (hu : e.prio = .urgent)
    (hw : windowOver s t = false) (hc : t.closedAfter = false) :
    (turn s t).batch = some (s.set ++ [e], t.clock2, newLast s t) ∧ (turn s t).filtered = [] ∧ (turn s t).next = none :=
  turn_urgent s t e hr hu hw hc

/-- **bounded delay under rejected traffic**: once the clock reading at the top of an iteration has reached
    `last + throttle` with a non-empty set, THAT iteration returns the set, whatever is waiting in the queue; and a
    rejected event never moves `last` (`Props.C01.rejected_event_affects_nothing_else`), so a stream of rejected events
    can postpone the batch by at most the one `recv` that was in flight when the window ended -/
theorem no_starvation (s : TS) (t : Turn) (hne : s.set ≠ []) (hd : t.throttle1 ≤ t.clock1 - s.last) :
    (turn s t).batch = some (s.set, t.clock1, s.last) ∧ (turn s t).received = [] := turn_window_over s t hne hd

/-- **the configured throttle duration, as the command line gives it**: `--debounce` (and `--poll`) without a unit are MILLISECONDS,
    `--stop-timeout` / `--delay-run` seconds — for every digit string below 2^64 … -/
theorem debounce_without_unit_is_milliseconds (ds : List Char) (hne : ds ≠ []) (hd : ds.all Ca.Ts.isDigit = true) (hlt : Ca.Ts.valOf ds < 2 ^ 64) :
    Ca.Ts.parseSpan Ca.Ts.msMult ds = some (Ca.Ts.valOf ds * 1000000) := Ca.Ts.unitless_is_scaled Ca.Ts.msMult ds hne hd hlt

/-- … and a unit is taken as written whatever the option's default (`500ms`, `2s`, `1min`, …: every unit of the table) -/
theorem a_unit_overrides_the_options_default (mult : Nat) (ds : List Char) (u : String) (ns : Nat) (hne : ds ≠ []) (hd : ds.all Ca.Ts.isDigit = true)
    (hlt : Ca.Ts.valOf ds < 2 ^ 64) (hu : Ca.Ts.unitNs u = some ns) (c : Char) (r : List Char) (hul : u.toList = c :: r) (hc : Ca.Ts.isDigit c = false) :
    Ca.Ts.parseSpan mult (ds ++ u.toList) = some (Ca.Ts.valOf ds * ns) := Ca.Ts.unit_is_respected mult ds u ns hne hd hlt hu c r hul hc

end Props.C02
