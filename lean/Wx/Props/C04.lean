import Wx.Job.C04Sim
/-! # C04 — A job never has two live processes at once

> At every moment a job has at most one child process that has been spawned and not yet reaped; a new process is
> spawned for the job only after the previous one has exited or been killed and its exit status has been collected.

Model: `Jm` (Wx/Job/Model.lean, Sim.lean). A *history* is a behaviour script for the children (`behs`), an operation
script (`ops`: API sends at any priority incl. raw controls, virtual-time advances, settles, dropping the handles) and a
resolution of every race (`runOps` returns every admissible final state). `St.live` = ids of children spawned and not reaped. -/
namespace Props.C04
open Jm

def initial (cfg : Fixes) (behs : List Beh) : Sim := { st := { cfg := cfg, behs := behs, hookSet := true, parked := true } }

/-- **at most one live child, and it is the one the task holds** — every fix configuration, every history -/
theorem at_most_one_live (cfg : Fixes) (behs : List Beh) (ops : List Op) :
    ∀ y ∈ runOps (initial cfg behs) ops,
      y.st.live.length ≤ 1 ∧ (∀ c, y.st.cs = .running c → y.st.live = [c]) ∧ ((∀ c, y.st.cs ≠ .running c) → y.st.live = []) := by
  intro y hy
  have h := (c04 cfg behs ops y hy).1
  refine ⟨?_, ?_, ?_⟩
  · rw [h]; cases y.st.cs <;> simp
  · intro c hc; rw [h, hc]
  · intro hn; rw [h]; cases hcs : y.st.cs with
    | running c => exact absurd hcs (hn c)
    | pending => rfl
    | finished s => rfl

/-- the invariant is inductive over single operations (so it also holds at every intermediate point of a history) -/
theorem step_preserves {x : Sim} (o : Op) (h : Inv x.st) : ∀ y ∈ stepOp x o, Inv y.st := inv_stepOp o h

/-- child ids are never reused: a reaped child is never "live" again -/
theorem ids_unique (cfg : Fixes) (behs : List Beh) (ops : List Op) :
    ∀ y ∈ runOps (initial cfg behs) ops, (y.st.children.map (·.id)).Nodup := fun y hy => (c04 cfg behs ops y hy).2.2

/-- non-vacuity: a reachable state in which a child is live -/
example : ((runOps (initial {} [.ignores]) [.send .normal [.start] true, .settle]).map (fun x => x.st.live)) = [[0]] := by decide

end Props.C04
