import Wx.Job.C04Sim
import Wx.Job.FaultsThm
/-! # C04 — A job never has two live processes at once

> At every moment a job has at most one child process that has been spawned and not yet reaped; a new process is
> spawned for the job only after the previous one has exited or been killed and its exit status has been collected.

Model: `Jm` (Wx/Job/Model.lean, Sim.lean). A *history* is a behaviour script for the children (`behs`), an operation
script (`ops`: API sends at any priority incl. raw controls, virtual-time advances, settles, dropping the handles) and a
resolution of every race (`runOps` returns every admissible final state). `St.live` = ids of children spawned and not reaped. -/
namespace Props.C04
open Jm

def initial (cfg : Fixes) (behs : List Beh) : Sim := { st := { cfg := cfg, behs := behs, hookSet := true, parked := true } }

/-- **at most one live child, and it is the one the task holds** — every fix configuration, every history -/
theorem at_most_one_live (cfg : Fixes) (behs : List Beh) (ops : List Op) :
    ∀ y ∈ runOps (initial cfg behs) ops,
      y.st.live.length ≤ 1 ∧ (∀ c, y.st.cs = .running c → y.st.live = [c]) ∧ ((∀ c, y.st.cs ≠ .running c) → y.st.live = []) := by
  intro y hy
  have h := (c04 cfg behs ops y hy).1
  refine ⟨?_, ?_, ?_⟩
  · rw [h]; cases y.st.cs <;> simp
  · intro c hc; rw [h, hc]
  · intro hn; rw [h]; cases hcs : y.st.cs with
    | running c => exact absurd hcs (hn c)
    | pending => rfl
    | finished s => rfl

/-- the invariant is inductive over single operations (so it also holds at every intermediate point of a history) -/
theorem step_preserves {x : Sim} (o : Op) (h : Inv x.st) : ∀ y ∈ stepOp x o, Inv y.st := inv_stepOp o h

/-- child ids are never reused: a reaped child is never "live" again -/
theorem ids_unique (cfg : Fixes) (behs : List Beh) (ops : List Op) :
    ∀ y ∈ runOps (initial cfg behs) ops, (y.st.children.map (·.id)).Nodup := fun y hy => (c04 cfg behs ops y hy).2.2

/-- non-vacuity: a reachable state in which a child is live -/
example : ((runOps (initial {} [.ignores]) [.send .normal [.start] true, .settle]).map (fun x => x.st.live)) = [[0]] := by decide

/-- **… and when calls on the child fail**: `Jf` (Wx/Job/Faults.lean) is the task with failing `kill()`, `signal()` and
    `wait()` calls (a fault script says which calls of which child fail). For every fault script, every history and every
    race resolution: at most one live child, and it is the one the task holds — a failed kill or wait never lets the task
    spawn a second process next to one it has not collected -/
theorem at_most_one_live_under_faults (cfg : Fixes) (behs : List Beh) (faults : List Jf.Fault) (ops : List Op) :
    ∀ z ∈ Jf.runOpsF (Jf.initialF cfg behs faults) ops,
      z.x.st.live.length ≤ 1 ∧ (∀ c, z.x.st.cs = .running c → z.x.st.live = [c]) ∧ ((∀ c, z.x.st.cs ≠ .running c) → z.x.st.live = []) := by
  intro z hz
  have h := (Jf.c04_faults cfg behs faults ops z hz).1
  refine ⟨?_, ?_, ?_⟩
  · rw [h]; cases z.x.st.cs <;> simp
  · intro c hc; rw [h, hc]
  · intro hn; rw [h]; cases hcs : z.x.st.cs with
    | running c => exact absurd hcs (hn c)
    | pending => rfl
    | finished s => rfl

/-- without faults the fault-aware task IS the model every other theorem is about: same runs, same states -/
theorem fault_free_is_the_verified_model (cfg : Fixes) (behs : List Beh) (ops : List Op) :
    (Jf.runOpsF (Jf.initialF cfg behs []) ops).map (·.x) = runOps (initial cfg behs) ops := by
  rw [Jf.runOpsF_noFaults ops rfl, List.map_map]
  exact List.map_id _

/-- non-vacuity: a kill that fails leaves the child live and running; the stop's ticket has resolved all the same -/
example : ((Jf.runOpsF (Jf.initialF Fixes.all [.ignores] [{ kill := true }])
      [.send .normal [.start] true, .settle, .send .normal [.stop] true, .settle]).map
        (fun z => (z.x.st.live, z.x.st.log.any (fun e => e.2 == .killFail 0), z.x.st.waiters.all (·.resolved)))) = [([0], true, true)] := by decide

end Props.C04
