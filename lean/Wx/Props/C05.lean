import Wx.Cli.Action
import Wx.Queue.Props
import Wx.Job.C04Sim
import Wx.Cli.ComposeThm
/-! # C05 — On-busy policy: do-nothing, queue, restart and signal behave as documented

> With the CLI's action logic a change while the command is idle starts it; a change while it runs does nothing
> (do-nothing), only sends the configured signal (signal), stops it gracefully and starts a fresh run (restart), or causes
> exactly one further run after the current one ends (queue). Runs of the command never overlap, the first run happens at
> start-up unless postponed, and in restart and queue modes the last change is always followed by a run that started after it.

`Ca.react` is what the state-query closure (which runs inside the job task) sends, as a function of the mode, the job
state at that moment and the queued-for record; its composition with the job model `Jm` is done by the driver and tied to
the real handler by the cli-action stream. `Qm` is the abstract queue-mode protocol (handler, job task, follow-ups). -/
namespace Props.C05
open Ca Jm

/-- **idle → exactly one Start** (every mode) -/
theorem idle_change_starts (cfg : Cfg) (cs : CS) (q) (h : ∀ c, cs ≠ .running c) :
    (react cfg cs q).1 = [.send [.start], .send [.func setupId]] ∧ (react cfg cs q).2 = q := react_idle cfg cs q h

/-- **do-nothing**: nothing is sent while running -/
theorem do_nothing_mode (cfg : Cfg) (c : ChildId) (q) (h : cfg.mode = .doNothing) : (react cfg (.running c) q).1 = [] := react_doNothing cfg c q h

/-- **signal**: exactly one Signal control — stop-signal, else signal, else TERM -/
theorem signal_mode (cfg : Cfg) (c : ChildId) (q) (h : cfg.mode = .signal) :
    (react cfg (.running c) q).1 = [.send [.signal ((cfg.stopSignal.orElse fun _ => cfg.signal).getD term)]] := react_signal cfg c q h

/-- **restart**: GracefulStop(stop-signal or TERM, stop-timeout) then Start, in one send — by C06 the Start is held back
    until the old process has ended, so exactly one fresh run follows -/
theorem restart_mode (cfg : Cfg) (c : ChildId) (q) (h : cfg.mode = .restart) :
    (react cfg (.running c) q).1 = [.send [.gracefulStop (cfg.stopSignal.getD term) cfg.stopTimeout, .start], .send [.func setupId]] :=
  react_restart cfg c q h

/-- **queue**: one follow-up per run -/
theorem queue_mode (cfg : Cfg) (c : ChildId) (h : cfg.mode = .queue) :
    (∀ q, q ≠ some c → react cfg (.running c) q = ([.followUp c], some c)) ∧ react cfg (.running c) (some c) = ([], some c) :=
  ⟨fun q hq => react_queue_first cfg c q h hq, react_queue_again cfg c h⟩

/-- no mode ever sends a forceful Stop, a Delete or an ungraceful try-restart -/
theorem never_forceful (cfg : Cfg) (cs : CS) (q) : ∀ ctl ∈ sentCtls (react cfg cs q).1, ctl ≠ .stop ∧ ctl ≠ .delete ∧ ctl ≠ .tryRestart :=
  react_no_forceful cfg cs q

/-- **runs never overlap**: whatever is sent, the job has at most one live process (C04) -/
theorem runs_never_overlap (cfg : Fixes) (behs : List Beh) (ops : List Op) :
    ∀ y ∈ runOps { st := { cfg := cfg, behs := behs, hookSet := true, parked := true } } ops, Inv y.st := c04 cfg behs ops

/-- **queue-mode freshness over ALL interleavings** of handler, job task and follow-up tasks (abstract protocol, per-run
    record): in every quiescent state the last change is followed by a run that started after it -/
theorem queue_mode_fresh (es : List Qm.Ev) :
    Qm.quiescent (Qm.run { v := .perRun } es) = true → Qm.fresh (Qm.run { v := .perRun } es) = true := Qm.perRun_fresh es

/-- kernel-checked witnesses: the old protocol (F10) and the obvious repair (reset before start) both reach a quiescent, stale state -/
theorem old_protocol_and_reordering_lose_changes :
    (∃ es, Qm.quiescent (Qm.run { v := .today } es) = true ∧ Qm.fresh (Qm.run { v := .today } es) = false) ∧
    (∃ es, Qm.quiescent (Qm.run { v := .reorder } es) = true ∧ Qm.fresh (Qm.run { v := .reorder } es) = false) :=
  ⟨⟨_, Qm.f10_today⟩, ⟨_, Qm.reorder_insufficient⟩⟩

/-! ### the composed model: the action logic driving the job task, over every script of CLI events -/

/-- **runs never overlap** — for every configuration, child behaviour, `--delay-run`, and every script of events (changes,
    signals, mixed actions, any timing, every race resolution) — and what the job does is a run of the documented machine -/
theorem composed_runs_never_overlap (cfg : Cfg) (behs : List Beh) (delay : Option Nat) (evs : List Ev) :
    ∀ c ∈ runEvs (initC cfg behs delay) evs, Jm.Inv c.x.st ∧ SpecRun (initC cfg behs delay).x.st.abs c.x.st.abs c.x.st.fx :=
  cli_runs_never_overlap cfg behs delay evs

/-- **restart stops gracefully**: without an interrupt / terminate signal, every kill comes at least the stop timeout
    after a signal to the same process -/
theorem composed_never_kills_early (cfg : Cfg) (behs : List Beh) (delay : Option Nat) (evs : List Ev) (hq : ∀ e ∈ evs, NoQuitEv e) :
    ∀ c ∈ runEvs (initC cfg behs delay) evs, ∀ t ch, (t, Obs.kill ch) ∈ c.x.st.log →
      ∃ t0 sig, (t0, Obs.signal ch sig) ∈ c.x.st.log ∧ t0 + cfg.stopTimeout ≤ t :=
  cli_never_kills_early cfg behs delay evs hq

/-- **do-nothing, queue and signal modes never kill** -/
theorem composed_other_modes_never_kill (cfg : Cfg) (hm : cfg.mode ≠ .restart) (behs : List Beh) (delay : Option Nat) (evs : List Ev)
    (hq : ∀ e ∈ evs, NoQuitEv e) : ∀ c ∈ runEvs (initC cfg behs delay) evs, ∀ t ch, (t, Obs.kill ch) ∉ c.x.st.log :=
  cli_other_modes_never_kill cfg hm behs delay evs hq

end Props.C05
