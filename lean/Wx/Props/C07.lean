import Wx.Job.C07b
import Wx.Job.C07w
import Wx.Job.C10c
import Wx.Job.C06
import Wx.Job.ApiThm
import Wx.Job.C07t
import Wx.Job.FaultsThm
/-! # C07 — Every control completes and every ticket resolves

> Every control sent to a live job is executed exactly once (or skipped as documented) and its ticket resolves no later
> than the completion of that control; for a graceful stop that is no later than the earlier of the process exiting and
> the grace period expiring. When a job ends all outstanding tickets resolve promptly, and this holds for every clone of
> a ticket, for any number of tasks waiting concurrently, and when spawning, signalling or killing fails.

Flags: every control carries a flag; a ticket (a *waiter*) resolves when its control's flag or the job's `gone` flag
(flag 0) is raised. `issued` is the ghost list of every flag ever handed out; `pending` = flags of queued messages;
`held` = flags kept by the grace timer, the wait-for-end list and the restart slot. -/
namespace Props.C07
open Jm

def initial (cfg : Fixes) (behs : List Beh) : Sim := { st := { cfg := cfg, behs := behs, hookSet := true, parked := true } }

/-- every call of the public API sends API-shaped controls, so API scripts satisfy the hypothesis of `no_flag_lost` -/
theorem api_ops_ok (c : ApiCall) (aw : Bool) : OpOk (.send (apiOf c).1 (apiOf c).2 aw) := by
  cases c <;> simp [OpOk, apiOf, ShapeOk]

/-- **no flag is ever lost** (repaired code, API-shaped sends, every history, spawn failures included): every flag ever
    issued is still queued, or already raised, or held by the timer / wait-for-end list / restart slot — and the restart
    slot lives exactly as long as its restart timer -/
theorem no_flag_lost (behs : List Beh) (ops : List Op) (hok : ∀ o ∈ ops, OpOk o) :
    ∀ y ∈ runOps (initial Fixes.all behs) ops,
      (∀ f ∈ y.st.issued, f ∈ y.st.pending ∨ y.st.isRaised f = true ∨ f ∈ y.st.held) ∧ Coupled y.st := by
  intro y hy
  obtain ⟨h1, h2⟩ := c07_noLost behs ops hok y hy
  refine ⟨fun f hf => ?_, h2⟩
  rcases h1 f hf with h | h
  · exact h
  · cases h

/-- **a held flag is released at the grace deadline**: at expiry the timer's message is the only candidate of `recv`,
    and for a graceful stop it is a plain stop that kills, reaps, and raises the control's flag -/
theorem released_at_expiry (s : St) (t : Timer) (c : ChildId) (ch : Child) (hf7 : s.cfg.f7 = true) (ht : s.timer = some t)
    (he : t.until_ ≤ s.now) (hr : t.isRestart = false) (hc : s.cs = .running c) (hch : s.child? c = some ch) :
    recvCandidates s = [.timer] ∧
    ∃ s1, takeFrom s .timer = some (⟨.stop, t.done⟩, s1) ∧ (handle s1 ⟨.stop, t.done⟩).isRaised t.done = true :=
  ⟨timer_fires s t hf7 ht he, by
    obtain ⟨s1, h1, _, _, h4⟩ := expiry_kills s t c ch ht hr hc hch
    exact ⟨s1, h1, h4⟩⟩

/-- **tickets** (waker list, any number of waiters and clones, every history): a ticket whose control's flag is raised,
    or whose job is gone, has resolved -/
theorem tickets_resolve (cfg : Fixes) (h35 : cfg.f35 = true) (behs : List Beh) (ops : List Op) :
    ∀ y ∈ runOps (initial cfg behs) ops, ∀ wt ∈ y.st.waiters,
      (y.st.isRaised wt.done = true ∨ y.st.isRaised 0 = true) → wt.resolved = true := c07_tickets cfg h35 behs ops

/-- non-vacuity for "every clone of a ticket, any number of tasks waiting": three tasks await clones of one wait-for-end
    ticket (`Op.clone`); all of them resolve when the process ends, none before -/
example : ((runOps (initial Fixes.all [.exitsAfter 30])
      [.send .normal [.start] true, .settle, .send .high [.nextEnding] true, .clone 1, .clone 1, .advance 10]).map
        (fun y => (y.st.waiters.length, (y.st.waiters.filter (·.resolved)).length))) = [(4, 1)] ∧
    ((runOps (initial Fixes.all [.exitsAfter 30])
      [.send .normal [.start] true, .settle, .send .high [.nextEnding] true, .clone 1, .clone 1, .advance 50]).map
        (fun y => (y.st.waiters.length, (y.st.waiters.filter (·.resolved)).length))) = [(4, 4)] := by decide

/-- **exactly once**: a raised flag belongs to a control that `recv` has returned, and each queue is consumed as a prefix of what was sent -/
theorem executed_once (cfg : Fixes) (behs : List Beh) (ops : List Op) :
    ∀ y ∈ runOps (initial cfg behs) ops,
      (∀ f, y.st.isRaised f = true → f = 0 ∨ f ∈ y.st.taken.map (·.2)) ∧ (∀ q, q ≠ Src.timer → proj y.st.taken q <+: proj y.st.sent q) :=
  c10_ran cfg behs ops

/-- kernel-checked witnesses kept from before the repairs: the graceful-stop flag was dropped when the child exited in
    grace (F1), and with a single waker slot a second waiter on `gone` made the first one hang (F5) -/
theorem violated_before_repairs :
    (∃ y ∈ runOps (initial Fixes.none [.exitsAfterSignal 30])
        [.send .normal [.start] true, .settle, .advance 10, .send .normal [.gracefulStop 15 100] true, .advance 300], ¬ NoLost y.st) ∧
    (∃ y ∈ runOps (initial {} [.ignores]) [.send .high [.nextEnding] true, .send .normal [.delete] true, .settle],
        ∃ wt ∈ y.st.waiters, y.st.isRaised 0 = true ∧ wt.resolved = false) :=
  ⟨c07_noLost_fails_today, c07_tickets_fails_today⟩

/-- **no later than the grace period expiring**: in every reachable state of a live job, each issued flag is still queued,
    already raised, waiting for the process to end (wait-for-end), or held by a grace timer whose deadline has NOT passed.
    So the ticket of a graceful stop / restart that has been taken from the queue is resolved whenever the clock shows more
    than its deadline; and when the process exits earlier the wait branch raises it (`no_flag_lost`, repairs F1/F2). -/
theorem graceful_ticket_by_deadline (behs : List Beh) (ops : List Op) (hok : ∀ o ∈ ops, OpOk o) :
    ∀ y ∈ runOps { st := { cfg := Fixes.all, behs := behs, hookSet := true, parked := true } } ops,
      y.st.alive = true → ∀ f ∈ y.st.issued,
        f ∈ y.st.pending ∨ y.st.isRaised f = true ∨ f ∈ y.st.onEnd ∨
        ∃ tm, y.st.timer = some tm ∧ tm.done = f ∧ y.st.now ≤ tm.until_ := c07_ticket_by_deadline behs ops hok

/-- an armed grace timer never expires unnoticed while the job task is alive -/
theorem grace_timer_never_overdue (behs : List Beh) (ops : List Op) :
    ∀ y ∈ runOps { st := { cfg := Fixes.all, behs := behs, hookSet := true, parked := true } } ops,
      y.st.alive = true → ∀ tm, y.st.timer = some tm → y.st.now ≤ tm.until_ := c07_timer_fresh behs ops

/-- **… and when signalling or killing fails** (and when `wait()` fails): in the fault-aware task `Jf`
    (Wx/Job/Faults.lean), for every fault script, every history of API-shaped sends and every race resolution, no flag is
    lost — each one is queued, raised, or held by the timer / wait-for-end list / restart slot -/
theorem no_flag_lost_under_faults (behs : List Beh) (faults : List Jf.Fault) (ops : List Op) (hok : ∀ o ∈ ops, OpOk o) :
    ∀ z ∈ Jf.runOpsF (Jf.initialF Fixes.all behs faults) ops,
      (∀ f ∈ z.x.st.issued, f ∈ z.x.st.pending ∨ z.x.st.isRaised f = true ∨ f ∈ z.x.st.held) ∧ Coupled z.x.st := by
  intro z hz
  obtain ⟨h1, h2⟩ := Jf.c07_faults behs faults ops hok z hz
  refine ⟨fun f hf => ?_, h2⟩
  rcases h1 f hf with h | h
  · exact h
  · cases h

/-- a control whose kill / signal / wait call fails is over at once: its flag is raised in the very step that handles it -/
theorem failed_call_raises_flag (x : Jf.FSt) (m : Msg) (o : Obs) : (Jf.failCtl x m o).st.isRaised m.done = true :=
  Jf.failCtl_raises x m o

/-- non-vacuity: signal() fails on a graceful stop — no timer is armed, the ticket resolves at once, nothing is held -/
example : ((Jf.runOpsF (Jf.initialF Fixes.all [.ignores] [{ signal := true }])
      [.send .normal [.start] true, .settle, .send .normal [.gracefulStop 15 100] true, .settle]).map
        (fun z => (z.x.st.timer.isSome, z.x.st.log.any (fun e => e.2 == .signalFail 0 15), z.x.st.waiters.all (·.resolved)))) = [(false, true, true)] := by decide

end Props.C07
