import Wx.Job.C09
import Wx.Job.C09b
import Wx.Job.C09c
import Wx.Job.ApiThm
/-! # C09 — Job lifecycle follows the documented state machine

> For every sequence of controls the job's observable state (pending, running, finished with status, and the previous
> run's result), the number and order of spawns, signals and kills, and the moments at which tickets resolve are those of
> the documented semantics. Start is a no-op while running and stop a no-op while not, restart always leaves a fresh
> process running, try-restart never starts an idle job, wait-for-end resolves at once when nothing is running, and the
> spawn hook runs once before each spawn with its changes taking effect.

`Jm.specStep` / `Jm.specExit` is the documented machine over `(cs, prev, hook, error handler, spawn count)`: new state, the
process-visible effects in order, and whether the control's ticket resolves in that step. -/
namespace Props.C09
open Jm

/-- **refinement, control arms**: handling any control is a step of the documented machine — same new state, exactly
    the spec's effects appended to the effect log, and the flag is raised iff the spec says "now" -/
theorem control_refines (s : St) (m : Msg) (hall : s.cfg = Fixes.all)
    (hch : ∀ c, s.cs = .running c → ∃ ch, s.child? c = some ch) :
    (handle s m).abs = (specStep s.abs m.ctl).1 ∧
    (handle s m).fx = (specStep s.abs m.ctl).2.1.reverse ++ s.fx ∧
    (s.isRaised m.done = false → (handle s m).isRaised m.done = (specStep s.abs m.ctl).2.2) := handle_refines s m hall hch

/-- **refinement, natural exit**: the wait branch is the machine's exit step (finished with the child's status, one
    `reaped`, and a respawn exactly if a graceful restart was pending) -/
theorem exit_refines (s : St) (c : ChildId) (hall : s.cfg = Fixes.all) :
    (waitBranch s c).abs = (specExit s.abs c (s.statusOf c) s.onEndRestart.isSome).1 ∧
    (waitBranch s c).fx = (specExit s.abs c (s.statusOf c) s.onEndRestart.isSome).2.reverse ++ s.fx := waitBranch_refines s c hall

/-! the documented special cases, read off the machine -/

theorem start_noop_while_running (sp : Sp) (c : ChildId) (h : sp.cs = .running c) : specStep sp .start = (sp, [], true) := by
  simp [specStep, h]

theorem stop_noop_while_not_running (sp : Sp) (h : ∀ c, sp.cs ≠ .running c) : specStep sp .stop = (sp, [], true) := by
  cases hc : sp.cs with
  | running c => exact absurd hc (h c)
  | pending => simp [specStep, hc]
  | finished s => simp [specStep, hc]

theorem try_restart_never_starts_idle (sp : Sp) (h : ∀ c, sp.cs ≠ .running c) :
    specStep sp .tryRestart = (sp, [], true) ∧ ∀ g ms, specStep sp (.tryGracefulRestart g ms) = (sp, [], true) := by
  cases hc : sp.cs with
  | running c => exact absurd hc (h c)
  | pending => simp [specStep, hc]
  | finished s => simp [specStep, hc]

theorem wait_for_end_at_once_when_idle (sp : Sp) (h : ∀ c, sp.cs ≠ .running c) : specStep sp .nextEnding = (sp, [], true) := by
  cases hc : sp.cs with
  | running c => exact absurd hc (h c)
  | pending => simp [specStep, hc]
  | finished s => simp [specStep, hc]

/-- restart = Stop then Start (the generated API table): from a running state the old child is killed and reaped, then a
    fresh spawn attempt follows, with the hook (if set) right before it -/
theorem restart_is_stop_then_start : (apiOf .restart) = (.normal, [.stop, .start]) ∧ lookupApi "restart" = some ("Normal", ["Stop", "Start"]) :=
  ⟨rfl, api_generated .restart⟩

/-- **hook once before each spawn, previous = the run before**: every spawn attempt of the machine is `[hook?] ++ [spawn n | spawnFail …]`
    and a respawn records the state it replaces as `prev` -/
theorem hook_then_spawn (sp : Sp) (b : Beh) :
    (sp.spawnB b).2 = (if sp.hook then [Obs.hook] else []) ++
      (match b with | .spawnFails => [Obs.spawnFail] ++ (if sp.errh then [Obs.errh] else []) | _ => [Obs.spawn sp.n]) := by
  cases b <;> simp [Sp.spawnB]

theorem spawnB_keeps_prev (sp : Sp) (b : Beh) : (sp.spawnB b).1.prev = sp.prev := by
  cases b <;> rfl

theorem respawn_records_previous (sp : Sp) : (sp.respawn.1).prev = some sp.cs := by
  unfold Sp.respawn Sp.spawn
  rw [spawnB_keeps_prev]; rfl

/-- the model's spawn is the machine's spawn (hook called once, the command it mutated is the one spawned) -/
theorem model_spawn_refines (s : St) (hn : NotRunning s) :
    (if s.spawn.2 = true then s.spawn.1 else s.spawn.1.errHandler).abs = s.abs.spawn.1 ∧
    (if s.spawn.2 = true then s.spawn.1 else s.spawn.1.errHandler).fx = s.abs.spawn.2.reverse ++ s.fx := spawn_refines s hn

/-- **whole run**: whatever controls are sent at whatever priority, whatever the children do, however time passes and
    every race resolves, the job's observable state and the log of everything it did to processes and hooks are those of a
    run of the documented machine (`SpecRun`: one `specStep` per executed control, one `specExit` per natural end) -/
theorem every_history_is_a_documented_run (behs : List Beh) (ops : List Op) :
    let x0 : Sim := { st := { cfg := Fixes.all, behs := behs, hookSet := true, parked := true } }
    ∀ y ∈ runOps x0 ops, SpecRun x0.st.abs y.st.abs y.st.fx := c09_whole_run behs ops

/-- the documented machine does nothing to a process except in a step: an empty run has an empty effect log -/
theorem documented_run_starts_silent (sp0 : Sp) : SpecRun sp0 sp0 [] := SpecRun.start

/-- non-vacuity: start, then stop, on a child that exits on the signal — the reachable state has a non-empty effect log -/
example : (runOps { st := { cfg := Fixes.all, behs := [.ignores], hookSet := true, parked := true } }
    [.send .normal [.start] true, .settle, .send .normal [.stop] true, .settle]).all (fun x => x.st.fx.length ≥ 2) = true := by decide

end Props.C09
