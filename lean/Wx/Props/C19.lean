import Wx.Pure.SignalsCase
import Wx.Pure.SignalsThm
/-! # C19 — Signal names and exit statuses convert consistently

> Every signal's display form parses back to the same OS signal; parsing is case-insensitive and agrees between the
> short name, the SIG-prefixed name and the number (apart from the documented Windows control names such as STOP, which
> take precedence over the unix short name), and the first-class signals map to their POSIX numbers. Converting an OS
> exit status to the portable process-end form preserves success, the exit code and the terminating signal.

Tables (`to_nix`, `from_nix`, `From<i32>`, `Display`, control names) are regenerated from crates/signals/src/lib.rs on
every run; the platform's number↔name table is dumped from the linked `nix` crate. Finite domains are enumerated completely. -/
namespace Props.C19
open Wp Wp.Gen

/-- display ∘ parse keeps the OS signal — every platform signal, in every constructor form -/
theorem display_then_parse : ∀ s ∈ allSignals, (parse (display s)).bind toNix = toNix s := display_parse

/-- **case-insensitive — every input string**: parsing sees its input only through the upper-cased form -/
theorem case_insensitive (s s' : Str) (h : toUpper s = toUpper s') : parse s = parse s' := parse_case_insensitive s s' h

/-- number, SIG-name and short name agree (upper, lower, capitalised — and by `case_insensitive` every other letter
    case), except where a control name takes over -/
theorem spellings (p) (hp : p ∈ nixTable) : ∀ sp ∈ Wp.spellings p, toUpper sp ∈ controlNames ∨ (parse sp).bind toNix = some p.1 :=
  spellings_agree p hp

/-- the only spellings a control name takes over are `STOP` (the documented exception) and `KILL`/`SIGKILL` (which mean the same signal anyway) -/
theorem documented_exceptions (p) (hp : p ∈ nixTable) : ∀ sp ∈ Wp.spellings p, toUpper sp ∈ controlNames →
    toUpper sp = "STOP".toList ∨ toUpper sp = "SIGKILL".toList ∨ toUpper sp = "KILL".toList := only_stop_is_shadowed p hp

/-- first-class signals have their POSIX numbers -/
theorem posix : toNix .hangup = some 1 ∧ toNix .interrupt = some 2 ∧ toNix .quit = some 3 ∧ toNix .forceStop = some 9 ∧
    toNix .user1 = some 10 ∧ toNix .user2 = some 12 ∧ toNix .terminate = some 15 := posix_numbers

/-- `From<i32>` and `from_nix` agree with the platform table on every valid number -/
theorem numbers : ∀ n ∈ validNums, toNix (fromI32 n) = some n ∧ toNix (fromNix n) = some n := fromI32_fromNix

/-- exit codes 0–255: success iff 0, otherwise the code -/
theorem exit_code_preserved : ∀ c ∈ List.range 256, fromStatus (c * 256) = if c = 0 then .success else .exitError c := exit_codes

/-- terminating signals 1–64, with and without the core-dump bit -/
theorem terminating_signal_preserved : ∀ g ∈ List.range 65, g ≠ 0 → ∀ core ∈ [0, 128], fromStatus (g + core) = .exitSignal (fromI32 g) := term_signals

end Props.C19
