import Wx.Err.C15
/-! # C15 — Runtime errors reach the error handler once and stop nothing unless elevated

> Every runtime error raised while filtering an event or while registering or unregistering a watched path is passed to
> the error handler exactly once, affects only the event or path concerned, and leaves Watchexec running and processing
> later events; errors raised from the watcher's own callback are passed at most once. If the handler elevates the error
> or raises a critical one, the main task ends with that critical error.

Model `Eh`: the bounded error channel (senders wait in arrival order; `try_send` from the watcher callback drops when no
permit is free), `error_hook`'s loop with the `Exit` special case, and a scripted handler (ignore / elevate / critical /
replace itself). "Affects only the event concerned" is `Props.C01.rejected_event_affects_nothing_else`; "one error per
failed watch/unwatch attempt, the others are still processed" is tied by the fs-worker stream (C13 model). -/
namespace Props.C15
open Eh

/-- **exactly once, in order**: for every capacity, handler script and operation sequence, while the hook runs, the
    errors passed to `send().await` are — in send order, each exactly once — the handler's calls, then the channel, then
    the senders still waiting for a permit (nothing is dropped or duplicated; callback errors may only be dropped) -/
theorem sent_errors_handled_exactly_once (cap : Nat) (behs : List HB) (ops : List Op) :
    let s := run { cap := cap, behs := behs } ops
    s.ended = none → ((s.delivered.map (·.2)) ++ s.chan ++ s.blocked).filter isSent = s.sentLog := c15_conserved cap behs ops

/-- **only the handler's verdict ends the hook**, with that error: elevate → the error itself, critical → the critical
    error, anything else → keep running -/
theorem only_elevation_ends_the_hook (s : St) (e : Err) (r : List Err) (hrun : s.ended = none) (hc : s.chan = e :: r) (he : e ≠ Err.exit) :
    (step s .hookTurn).ended = match s.behs[s.calls]?.getD .ignore with
      | .elevate => some (.elevated e) | .critical => some .critical | _ => none := hook_end s e r hrun hc he

theorem ended_hook_handles_nothing_more (s : St) (h : s.ended.isSome = true) : step s .hookTurn = s := ended_stops s h

end Props.C15
