import Wx.Fs.C13
import Wx.Fs.C13f
/-! # C13 — Watcher registration converges to the configured path set

> After any sequence of run-time configuration changes (path set, watcher kind, repeated or concurrent changes, changes
> made from inside handlers), once changes stop the set of paths registered with the active filesystem watcher equals the
> configured path set with the configured recursion mode and watcher kind, and an empty set releases the watcher.

Model `Fw` (Wx/Fs/Model.lean): the loop of `sources/fs.rs::worker` with `ConfigWatched`; a *history* is a list of
operations: a configuration change made while the worker is parked (after which the worker runs until it parks again), or
arming an *in-call* change — one made from inside the worker's own next `watch`/`unwatch` call on a given path, the
window in which a change used to be lost. Quiescence = no wake-up pending and change counter seen = current. -/
namespace Props.C13
open Fw

inductive Op
  | change (c : Cfg)                       -- Config::pathset / file_watcher from any task while the worker is parked
  | inCall (name : String) (c : Cfg)       -- the next watch/unwatch call on `name` has this change made inside it

def Op.cfg : Op → Cfg | .change c => c | .inCall _ c => c

def applyOp (s : St) : Op → St
  | .change c => runWorker 16 (applyCfg s c true)
  | .inCall n c => { s with hooks := [(n, c)] }

/-- the repaired worker after start-up (first iteration done, parked) -/
def start : St := runWorker 16 { fx := ⟨true, true⟩ }

theorem J_ops (ops : List Op) (hn : ∀ o ∈ ops, NodupNames o.cfg.paths) : J (ops.foldl applyOp start) := by
  suffices ∀ s, J s → J (ops.foldl applyOp s) from this start J_init
  induction ops with
  | nil => intro s h; exact h
  | cons o os ih =>
    intro s h
    have hno := hn o List.mem_cons_self
    have hnos : ∀ o' ∈ os, NodupNames o'.cfg.paths := fun o' ho' => hn o' (List.mem_cons_of_mem _ ho')
    simp only [List.foldl_cons]
    apply ih hnos
    cases o with
    | change c => exact J_runWorker 16 (J_applyCfg c hno h)
    | inCall n c => exact J_addHook n c hno h

/-- **convergence**: after ANY sequence of changes — made while the worker is parked or from inside its own calls — in a
    quiescent state the active watcher has the configured kind, the registered set and the worker's belief both equal the
    configured path set (modes included: a `WP` is a path with its recursion flag), and there is no watcher iff the set is
    empty. Hypothesis: configured path names are distinct. Fault-free case (no injected watch/unwatch failures). -/
theorem converges (ops : List Op) (hn : ∀ o ∈ ops, NodupNames o.cfg.paths) :
    let s := ops.foldl applyOp start
    wake s = false → Converged s.cfg s.priv := by
  intro s hq
  have hj := J_ops ops hn
  have h := c13_converges hj 0
  simpa [runWorker] using h hq

/-- what `Converged` says, spelled out for a non-empty configuration -/
theorem converged_nonempty (c : Cfg) (p : Priv) (h : Converged c p) (hne : c.paths ≠ []) :
    ∃ reg, p.watcher = some (c.kind, reg) ∧ (∀ x, x ∈ reg ↔ x ∈ c.paths) := by
  unfold Converged at h; simp only [hne, if_false] at h
  obtain ⟨reg, h1, _, h3, _⟩ := h; exact ⟨reg, h1, h3⟩

/-- and for the empty one: the watcher is released -/
theorem converged_empty (c : Cfg) (p : Priv) (h : Converged c p) (he : c.paths = []) : p.watcher = none := by
  unfold Converged at h; simp only [he, if_true] at h; exact h.1

/-- non-vacuity: a history in which a change made from inside `watch(b)` replaces the path set AND the watcher kind ends
    quiescent, with exactly the finally configured path registered with a watcher of the finally configured kind -/
example :
    let ops := [Op.change ⟨[a'], .native⟩, .inCall "b" ⟨[b'], .poll⟩, .change ⟨[a', b'], .native⟩]
    let s := ops.foldl applyOp start
    wake s = false ∧ s.cfg = ⟨[b'], .poll⟩ ∧ s.watcher = some (.poll, [b']) := by decide

/-- kernel-checked witnesses kept from before the repairs (F8a, F8b) -/
theorem violated_before_repairs :
    (let s1 := runWorker 16 (applyCfg (runWorker 16 {}) ⟨[a'], .native⟩ true)
     let s2 := runWorker 16 (applyCfg s1 ⟨[a'], .poll⟩ true)
     wake s2 = false ∧ s2.watcher = some (.poll, [])) ∧
    (let s0 := { runWorker 16 {} with hooks := [("a", ⟨[a', b'], .native⟩)] }
     let s1 := runWorker 16 (applyCfg s0 ⟨[a'], .native⟩ true)
     wake s1 = false ∧ s1.cfg.paths = [a', b'] ∧ s1.watcher = some (.native, [a'])) := ⟨f8a_witness, f8b_witness⟩

/-- **a path that fails to register does not prevent the others** (one iteration of the repaired worker, any set of
    failing names, hooks changing the configuration from inside the calls allowed) -/
theorem failing_path_does_not_prevent_the_others (s : St) (hf : s.fx.f8a = true) (hU : s.failU = []) (hs : Sync' s.priv)
    (hc : NodupNames s.cfg.paths) (x : WP) (hx : x ∈ s.cfg.paths) (hok : s.failW.contains x.name = false) :
    ∃ k reg, (iteration s).watcher = some (k, reg) ∧ x ∈ reg := others_are_registered s hf hU hs hc x hx hok

/-- **reported once per attempt**: when the back-end's error names at most one path (the path it was given, another spelling
    of it, or none) that is one runtime error per failing attempt -/
theorem one_error_per_failing_attempt (s : St) (hf : s.fx.f8a = true) (hU : s.failU = []) (hs : Sync' s.priv)
    (hc : NodupNames s.cfg.paths) (hne : s.cfg.paths ≠ []) (h1 : ∀ e ∈ s.named, e.2 ≤ 1) :
    (iteration s).errs = s.errs +
      ((s.cfg.paths.filter (fun p => !(ensureWatcher s).localSet.contains p)).filter (fun x => s.failW.contains x.name)).length :=
  errors_one_per_attempt s hf hU hs hc hne h1

/-- in general (`notify_multi_path_errors`): per failing attempt one error for each path its notify error names, one when it
    names none — never a second error for the same attempt and path -/
theorem errors_per_failing_attempt (s : St) (hf : s.fx.f8a = true) (hU : s.failU = []) (hs : Sync' s.priv)
    (hc : NodupNames s.cfg.paths) (hne : s.cfg.paths ≠ []) : (iteration s).errs = s.errs + iterationErrs s :=
  errors_once_per_attempt s hf hU hs hc hne

/-- and the worker's belief stays equal to what is registered (`Sync'`), so the failed path is attempted again on the next change -/
theorem belief_stays_in_sync (s : St) (hf : s.fx.f8a = true) (hU : s.failU = []) (hs : Sync' s.priv)
    (hc : NodupNames s.cfg.paths) (hne : s.cfg.paths ≠ []) : Sync' (iteration s).priv :=
  (iteration_faults s hf hU hs hc hne).1

/-- an empty configured set releases the watcher in that very iteration, also after failures -/
theorem empty_set_always_releases (s : St) (h : s.cfg.paths = []) : (iteration s).watcher = none ∧ (iteration s).localSet = [] :=
  empty_set_releases s h

/-- **a failed unregistration is remembered, hence attempted again** at the next wake-up: the path stays in the worker's own set
    and in the watcher's registrations, and exactly its runtime error(s) are reported -/
theorem failed_unregistration_is_remembered (s : St) (p : WP) (h : s.failU.contains p.name = true) :
    (doUnwatch s p).localSet = s.localSet ∧ (doUnwatch s p).watcher = s.watcher ∧
    (s.watcher ≠ none → (doUnwatch s p).errs = s.errs + errNOf s.named p.name) := failed_unwatch_is_remembered s p h

end Props.C13
