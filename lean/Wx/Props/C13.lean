import Wx.Fs.C13
/-! # C13 — Watcher registration converges to the configured path set

> After any sequence of run-time configuration changes (path set, watcher kind, repeated or concurrent changes, changes
> made from inside handlers), once changes stop the set of paths registered with the active filesystem watcher equals the
> configured path set with the configured recursion mode and watcher kind, and an empty set releases the watcher.

Model `Fw` (Wx/Fs/Model.lean): the loop of `sources/fs.rs::worker` with `ConfigWatched`; a *history* is a list of
operations: a configuration change made while the worker is parked (after which the worker runs until it parks again), or
arming an *in-call* change — one made from inside the worker's own next `watch`/`unwatch` call on a given path, the
window in which a change used to be lost. Quiescence = no wake-up pending and change counter seen = current. -/
namespace Props.C13
open Fw

inductive Op
  | change (c : Cfg)                       -- Config::pathset / file_watcher from any task while the worker is parked
  | inCall (name : String) (c : Cfg)       -- the next watch/unwatch call on `name` has this change made inside it

def Op.cfg : Op → Cfg | .change c => c | .inCall _ c => c

def applyOp (s : St) : Op → St
  | .change c => runWorker 16 (applyCfg s c true)
  | .inCall n c => { s with hooks := [(n, c)] }

/-- the repaired worker after start-up (first iteration done, parked) -/
def start : St := runWorker 16 { fx := ⟨true, true⟩ }

theorem J_ops (ops : List Op) (hn : ∀ o ∈ ops, NodupNames o.cfg.paths) : J (ops.foldl applyOp start) := by
  suffices ∀ s, J s → J (ops.foldl applyOp s) from this start J_init
  induction ops with
  | nil => intro s h; exact h
  | cons o os ih =>
    intro s h
    have hno := hn o List.mem_cons_self
    have hnos : ∀ o' ∈ os, NodupNames o'.cfg.paths := fun o' ho' => hn o' (List.mem_cons_of_mem _ ho')
    simp only [List.foldl_cons]
    apply ih hnos
    cases o with
    | change c => exact J_runWorker 16 (J_applyCfg c hno h)
    | inCall n c => exact J_addHook n c hno h

/-- **convergence**: after ANY sequence of changes — made while the worker is parked or from inside its own calls — in a
    quiescent state the active watcher has the configured kind, the registered set and the worker's belief both equal the
    configured path set (modes included: a `WP` is a path with its recursion flag), and there is no watcher iff the set is
    empty. Hypothesis: configured path names are distinct. Fault-free case (no injected watch/unwatch failures). -/
theorem converges (ops : List Op) (hn : ∀ o ∈ ops, NodupNames o.cfg.paths) :
    let s := ops.foldl applyOp start
    wake s = false → Converged s.cfg s.priv := by
  intro s hq
  have hj := J_ops ops hn
  have h := c13_converges hj 0
  simpa [runWorker] using h hq

/-- what `Converged` says, spelled out for a non-empty configuration -/
theorem converged_nonempty (c : Cfg) (p : Priv) (h : Converged c p) (hne : c.paths ≠ []) :
    ∃ reg, p.watcher = some (c.kind, reg) ∧ (∀ x, x ∈ reg ↔ x ∈ c.paths) := by
  unfold Converged at h; simp only [hne, if_false] at h
  obtain ⟨reg, h1, _, h3, _⟩ := h; exact ⟨reg, h1, h3⟩

/-- and for the empty one: the watcher is released -/
theorem converged_empty (c : Cfg) (p : Priv) (h : Converged c p) (he : c.paths = []) : p.watcher = none := by
  unfold Converged at h; simp only [he, if_true] at h; exact h.1

/-- non-vacuity: a history in which a change made from inside `watch(b)` replaces the path set AND the watcher kind ends
    quiescent, with exactly the finally configured path registered with a watcher of the finally configured kind -/
example :
    let ops := [Op.change ⟨[a'], .native⟩, .inCall "b" ⟨[b'], .poll⟩, .change ⟨[a', b'], .native⟩]
    let s := ops.foldl applyOp start
    wake s = false ∧ s.cfg = ⟨[b'], .poll⟩ ∧ s.watcher = some (.poll, [b']) := by decide

/-- kernel-checked witnesses kept from before the repairs (F8a, F8b) -/
theorem violated_before_repairs :
    (let s1 := runWorker 16 (applyCfg (runWorker 16 {}) ⟨[a'], .native⟩ true)
     let s2 := runWorker 16 (applyCfg s1 ⟨[a'], .poll⟩ true)
     wake s2 = false ∧ s2.watcher = some (.poll, [])) ∧
    (let s0 := { runWorker 16 {} with hooks := [("a", ⟨[a', b'], .native⟩)] }
     let s1 := runWorker 16 (applyCfg s0 ⟨[a'], .native⟩ true)
     wake s1 = false ∧ s1.cfg.paths = [a', b'] ∧ s1.watcher = some (.native, [a'])) := ⟨f8a_witness, f8b_witness⟩

end Props.C13
