import Wx.Pure.C17b
/-! # C17 — Path summaries handed to commands are faithful

> In the environment summary every path of every event that has a filesystem kind appears in exactly the variables of
> its kinds, such that joining the common path with the listed entry gives back the original path; entries are
> de-duplicated and byte-sorted, the common path is the longest common directory when every pathed event carries a kind,
> and events without paths or kinds contribute no entry. The line-based stdin/file format lists each (kind, path) pair
> of the batch once per event, in event order.

`P` models a `std::path::Path` (optional root + normal components); `summarise` = `summarise_events_to_env`
(`.1` = COMMON, `.2` = variables); `bucket` is the documented kind → variable table, proved equal to the `match` in the
code, which is regenerated from crates/lib/src/paths.rs on every run. -/
namespace Props.C17
open Wp

/-- the documented table is the code's table (all 41 kinds) -/
theorem documented_table_is_the_code (k : EventKind) : bucket k = Gen.bucketGen k := bucket_is_code k

/-- **faithful**: with COMMON set, every path of every event joins back: COMMON.join(entry) = path -/
theorem entry_joins_back (evs : List Ev) (c : P) (hc : (summarise evs).1 = some c) (e : Ev) (he : e ∈ evs) (p : P) (ft) (hp : (p, ft) ∈ e.paths) :
    ∃ s, s.abs = false ∧ c.join s = p ∧ entryOf (some c) p = s.render := entry_faithful evs c hc e he p ft hp

/-- **every (kind, path) pair is listed** in the variable of its kind -/
theorem every_pair_listed (evs : List Ev) (e : Ev) (he : e ∈ evs) (k : EventKind) (hk : k ∈ e.kinds) (p : P) (ft) (hp : (p, ft) ∈ e.paths) :
    ∃ es, (bucket k, es) ∈ (summarise evs).2 ∧ entryOf (summarise evs).1 p ∈ es := summarise_complete evs e he k hk p ft hp

/-- **nothing else is listed, strictly increasing in byte order** (so sorted and duplicate-free): the entries of a
    variable are exactly the entries of the paths of events having a kind of that variable — events without a path or
    without a kind satisfy neither side -/
theorem entries_exact_and_sorted (evs : List Ev) (b : String) (es : List Str) (h : (b, es) ∈ (summarise evs).2) :
    es.Pairwise (· < ·) ∧ ∀ y, y ∈ es ↔ ∃ e ∈ evs, (∃ k ∈ e.kinds, bucket k = b) ∧ ∃ p ft, (p, ft) ∈ e.paths ∧ y = entryOf (summarise evs).1 p :=
  summarise_entries evs b es h

/-- **COMMON is the longest common directory** of the trunks (a prefix of every trunk, and every common prefix is a prefix of it) -/
theorem common_is_the_longest_common_directory (evs : List Ev) (c : P) (hc : (summarise evs).1 = some c) :
    (∀ t ∈ trunks evs, c.under t) ∧ ∀ d : P, (∀ t ∈ trunks evs, d.under t) → d.under c := common_longest evs c hc

/-- **line format**: the concatenation of per-event lines, in event order; an event with kinds has paths × kinds lines -/
theorem lines_in_event_order (a b : List Ev) : simpleFormat (a ++ b) = simpleFormat a ++ simpleFormat b := simpleFormat_append a b
theorem lines_per_event (e : Ev) (h : e.kinds ≠ []) : (eventLines e).length = e.paths.length * e.kinds.length := eventLines_length e h

end Props.C17
