import Wx.Pure.OriginsThm
/-! # C20 — Project origins are exactly the marked ancestors

> Origin detection returns exactly those directories among the given path and its ancestors that contain a recognised
> project marker, and nothing outside that chain; the project types reported for a directory correspond exactly to the
> markers present in it. Every project type is classified as either version control or software suite, never neither and never both.

A *chain* is the list of (directory, listing) from the given path up to the root; a listing maps names to file / dir /
other. The marker tables, `is_vcs`, `is_soft` and the doc-comment class of every variant are regenerated from
crates/project-origins/src/lib.rs on every run. -/
namespace Props.C20
open Wp Wp.Gen

/-- **exactly the marked members of the chain** — any chain length; a marker counts only with the right node type -/
theorem origins_are_exactly_the_marked (chain : List (String × Listing)) (d : String) :
    d ∈ origins chain ↔ ∃ l, (d, l) ∈ chain ∧ l ≠ [] ∧ ∃ m ∈ originMarkers, present l m = true := origins_exact chain d

/-- nothing outside the chain, and in chain order -/
theorem nothing_outside_the_chain (chain : List (String × Listing)) : (origins chain).Sublist (chain.map (·.1)) := origins_sublist chain

/-- **types = markers present** -/
theorem types_are_exactly_the_markers_present (l : Listing) (t : ProjectType) :
    t ∈ types l ↔ ∃ name isDir, (name, isDir, t) ∈ typeMarkers ∧ present l (name, isDir) = true := types_exact l t

/-- the code's tables are the documented / recognised ones -/
theorem tables_are_the_documented_ones :
    ((∀ m ∈ typeMarkers, m ∈ documented) ∧ (∀ m ∈ documented, m ∈ typeMarkers)) ∧ originMarkers = recognised ∧
    (∀ m ∈ typeMarkers, (m.1, m.2.1) ∈ originMarkers) := ⟨typeMarkers_documented, originMarkers_recognised, typeMarkers_are_originMarkers⟩

/-- **exactly one of version control / software suite**, and it is the class the documentation gives -/
theorem classified_exactly_once (t : ProjectType) : isVcs t ≠ isSoft t := classified t
theorem classification_is_documented : (∀ t ∈ ProjectType.all, isVcs t = (docClass t == "VCS")) ∧ (∀ t ∈ ProjectType.all, isSoft t = (docClass t == "Soft")) :=
  ⟨isVcs_documented, isSoft_documented⟩

/-- a directory called like a file marker is not a marker -/
example : types [("Cargo.toml", .dir)] = [] ∧ types [("Cargo.toml", .file), (".git", .dir)] = [.git, .cargo] := by decide

/-- the model the correspondence stream runs (pinned tables, nothing generated) IS the code's function over the
    regenerated tables: `origins()` on every chain, `types()` on every listing -/
theorem code_is_the_specification :
    (∀ chain, origins chain = originsDoc chain) ∧ (∀ l n, n ∈ typesDoc l ↔ ∃ t ∈ types l, ptNameK t = n) :=
  ⟨origins_eq_doc, types_eq_doc⟩

end Props.C20
