import Wx.Pure.C18
/-! # C18 — Commands are spawned with exactly the configured program and arguments

> Without a shell the child receives the program and every argument byte for byte with no splitting or interpretation;
> with a shell it is invoked as the shell, its options, the program option, the command string, then the extra
> arguments, in that order. Process-group and session options place the child in its own group or session, and
> environment or working-directory changes made by the spawn hook are visible to the child.

`argv` / `wrappers` model `Command::to_spawnable`, `interpret` the CLI's `interpret_command_args`. That `execve`
delivers the vector unchanged, that the wrappers have their effect and that the hook's changes reach every (re)spawn is
validated with real children by the spawn stream (and, for the hook, proved on the job model: `Props.C09.model_spawn_refines`). -/
namespace Props.C18
open Wp

theorem exec_verbatim (p : Str) (a : List Str) : argv (.exec p a) = p :: a := argv_exec p a

theorem shell_order (sh : Shell) (c : Str) (a : List Str) :
    argv (.shell sh c a) = [sh.prog] ++ sh.options ++ sh.programOption.toList ++ [c] ++ a := argv_shell sh c a

/-- session wins over grouped; kill-on-drop is always there -/
theorem wrappers_by_options (o : SpawnOptions) :
    (o.session = true → wrappers o = [.killOnDrop, .processSession] ++ (if o.resetSigmask then [.resetSigmask] else [])) ∧
    (o.session = false → o.grouped = true → wrappers o = [.killOnDrop, .processGroupLeader] ++ (if o.resetSigmask then [.resetSigmask] else [])) ∧
    (o.session = false → o.grouped = false → wrappers o = [.killOnDrop] ++ (if o.resetSigmask then [.resetSigmask] else [])) :=
  ⟨wrappers_session o, wrappers_grouped o, wrappers_plain o⟩

/-- CLI, no shell (`-n` / `--shell=none`): the trailing arguments become program and arguments verbatim -/
theorem cli_no_shell (a : CliCmd) (p : Str) (r : List Str) (hp : a.program = p :: r)
    (h : a.noShell = true ∨ (a.shell.orElse fun _ => a.envShell) = some "none".toList) :
    interpret a = .ok (.exec p r, optsOf a) ∧ argv (.exec p r) = a.program := interpret_noshell a p r hp h

/-- CLI, with a shell: shell words (split on ASCII whitespace), `-c`, then the arguments joined by single spaces -/
theorem cli_shell (a : CliCmd) (sh : Str) (hn : a.noShell = false) (hs : (a.shell.orElse fun _ => a.envShell).getD "sh".toList = sh)
    (hne : sh ≠ "none".toList) (w : Str) (ws : List Str) (hw : splitWs [] sh = w :: ws) :
    interpret a = .ok (.shell { prog := w, options := ws, programOption := some "-c".toList } (joinSp a.program) [], optsOf a) ∧
    argv (.shell { prog := w, options := ws, programOption := some "-c".toList } (joinSp a.program) []) = w :: ws ++ ["-c".toList, joinSp a.program] :=
  interpret_shell a sh hn hs hne w ws hw

/-- the shell string is split into non-empty, whitespace-free words and nothing but whitespace is lost -/
theorem shell_words (s : Str) : (∀ w ∈ splitWs [] s, w ≠ [] ∧ ∀ c ∈ w, isAsciiWs c = false) ∧ (splitWs [] s).flatten = s.filter (fun c => !isAsciiWs c) :=
  ⟨splitWs_clean s [] (by simp), by simpa using splitWs_flatten s [] (by simp)⟩

end Props.C18
