import Wx.Glob.ThrottleRun
import Wx.Kb.Thm
/-! # C01 — Accepted events reach the action handler exactly once; rejected ones never

> While Watchexec is running, every event accepted into its queue that the configured filter accepts, or that is urgent
> or empty, is handed to the action handler in exactly one batch. Events the filter rejects or errors on are never
> handed to the handler, and the handler is never invoked with an empty batch.

Model `Sp.Th`: one *turn* is one iteration of the loop in `throttle_collect`; its inputs are everything the code reads
from outside in that iteration — the throttle value, three clock readings, the outcome of `timeout(maxtime, recv())`
(timeout / closed / an event with its priority, emptiness and filter verdict), whether the channel is closed afterwards.
A *history* is any list of turns; `worker` is the loop around `throttle_collect` (each returned batch is one handler
call). `accepted e` = urgent ∨ empty ∨ verdict = pass. -/
namespace Props.C01
open Sp.Th

/-- **exactly one batch, in order**: for every history, the batches handed to the handler, concatenated, followed by the
    accepted events of the last unfinished call (still waiting for their window, or dropped because the channel closed
    — i.e. a quit), are exactly the accepted events in the order they were received -/
theorem every_accepted_event_in_exactly_one_batch (fuel : Nat) (ts : List Turn) :
    ((worker fuel ts).batches.map (·.1)).flatten ++ (worker fuel ts).tail = (worker fuel ts).received.filter accepted :=
  worker_conserve fuel ts

/-- **never a rejected or erroring event** in any batch -/
theorem only_accepted_events_reach_the_handler (fuel : Nat) (ts : List Turn) :
    ∀ b ∈ (worker fuel ts).batches, ∀ e ∈ b.1, accepted e = true := worker_only_accepted fuel ts

/-- **never an empty batch** -/
theorem no_empty_batch (fuel : Nat) (ts : List Turn) : ∀ b ∈ (worker fuel ts).batches, b.1 ≠ [] := worker_nonempty fuel ts

/-- a rejected or erroring event consumes only itself: the pending set and its window are untouched, the call goes on,
    and exactly the erroring one produces a runtime error -/
theorem rejected_event_affects_nothing_else (s : TS) (t : Turn) (e : Ev) (hr : t.recv = .got e) (hb : bypass e = false)
    (hv : e.verdict ≠ .pass) (hw : windowOver s t = false) (hc : t.closedAfter = false) :
    (turn s t).next = some s ∧ (turn s t).batch = none ∧ (turn s t).errs = (if e.verdict = .err then [e] else []) :=
  turn_rejected s t e hr hb hv hw hc

/-- only non-urgent, non-empty events are shown to the filter; every runtime error comes from an erroring verdict -/
theorem filter_sees_only_filterable (s : TS) (t : Turn) :
    (∀ e ∈ (turn s t).filtered, bypass e = false) ∧ (∀ e ∈ (turn s t).errs, e.verdict = .err ∧ accepted e = false) := turn_filtered s t

/-! ### the keyboard source (`sources/keyboard.rs`, model `Kb`): how a keyboard EOF gets INTO the queue

A script is any list of `keyboard_events(b)` calls (each also a change signal; several before the worker runs are one
wake-up), input bytes, end of input on stdin, and points at which worker and watch task have run as far as they can. -/

/-- **a keyboard EOF is never lost**: once things have settled with the source enabled and stdin at end of input, the EOF event
    has been sent — whatever run-time switching on and off, coalesced or not, came before -/
theorem keyboard_eof_is_never_lost (ops : List Kb.Op) :
    (Kb.settle (Kb.run Kb.init ops)).enabled = true → (Kb.settle (Kb.run Kb.init ops)).eof = true →
    1 ≤ (Kb.settle (Kb.run Kb.init ops)).delivered := Kb.eof_never_lost ops

/-- **exactly one event in the plain use** (enabled once, any input, end of input, anything but a configuration change after) -/
theorem keyboard_eof_exactly_once (ds rest : List Kb.Op) (hds : ∀ op ∈ ds, Kb.quietOp op = true) (hrest : ∀ op ∈ rest, Kb.noSet op = true) :
    (Kb.run Kb.init ([.set true, .settle] ++ ds ++ [.close, .settle] ++ rest)).delivered = 1 := Kb.eof_exactly_once ds rest hds hrest

/-- at most one EOF event per enabling of the source, and none at all while it was never enabled -/
theorem keyboard_eof_at_most_once_per_enabling (ops : List Kb.Op) : (Kb.run Kb.init ops).delivered ≤ Kb.enables ops :=
  Kb.delivered_le_enables ops

/-- one end of input is not reported twice to a source that stayed enabled: EOF events never outnumber the switches from
    disabled to enabled the worker could see -/
theorem keyboard_eof_not_reported_twice (ops : List Kb.Op) : (Kb.run Kb.init ops).delivered ≤ Kb.edges ops := Kb.delivered_le_edges ops

theorem disabled_keyboard_source_is_silent (ops : List Kb.Op) (h : ∀ op ∈ ops, op ≠ .set true) : (Kb.run Kb.init ops).delivered = 0 :=
  Kb.disabled_delivers_nothing ops h

end Props.C01
