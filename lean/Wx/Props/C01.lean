import Wx.Glob.ThrottleRun
/-! # C01 — Accepted events reach the action handler exactly once; rejected ones never

> While Watchexec is running, every event accepted into its queue that the configured filter accepts, or that is urgent
> or empty, is handed to the action handler in exactly one batch. Events the filter rejects or errors on are never
> handed to the handler, and the handler is never invoked with an empty batch.

Model `Sp.Th`: one *turn* is one iteration of the loop in `throttle_collect`; its inputs are everything the code reads
from outside in that iteration — the throttle value, three clock readings, the outcome of `timeout(maxtime, recv())`
(timeout / closed / an event with its priority, emptiness and filter verdict), whether the channel is closed afterwards.
A *history* is any list of turns; `worker` is the loop around `throttle_collect` (each returned batch is one handler
call). `accepted e` = urgent ∨ empty ∨ verdict = pass. -/
namespace Props.C01
open Sp.Th

/-- **exactly one batch, in order**: for every history, the batches handed to the handler, concatenated, followed by the
    accepted events of the last unfinished call (still waiting for their window, or dropped because the channel closed
    — i.e. a quit), are exactly the accepted events in the order they were received -/
theorem every_accepted_event_in_exactly_one_batch (fuel : Nat) (ts : List Turn) :
    ((worker fuel ts).batches.map (·.1)).flatten ++ (worker fuel ts).tail = (worker fuel ts).received.filter accepted :=
  worker_conserve fuel ts

/-- **never a rejected or erroring event** in any batch -/
theorem only_accepted_events_reach_the_handler (fuel : Nat) (ts : List Turn) :
    ∀ b ∈ (worker fuel ts).batches, ∀ e ∈ b.1, accepted e = true := worker_only_accepted fuel ts

/-- **never an empty batch** -/
theorem no_empty_batch (fuel : Nat) (ts : List Turn) : ∀ b ∈ (worker fuel ts).batches, b.1 ≠ [] := worker_nonempty fuel ts

/-- a rejected or erroring event consumes only itself: the pending set and its window are untouched, the call goes on,
    and exactly the erroring one produces a runtime error -/
theorem rejected_event_affects_nothing_else (s : TS) (t : Turn) (e : Ev) (hr : t.recv = .got e) (hb : bypass e = false)
    (hv : e.verdict ≠ .pass) (hw : windowOver s t = false) (hc : t.closedAfter = false) :
    (turn s t).next = some s ∧ (turn s t).batch = none ∧ (turn s t).errs = (if e.verdict = .err then [e] else []) :=
  turn_rejected s t e hr hb hv hw hc

/-- only non-urgent, non-empty events are shown to the filter; every runtime error comes from an erroring verdict -/
theorem filter_sees_only_filterable (s : TS) (t : Turn) :
    (∀ e ∈ (turn s t).filtered, bypass e = false) ∧ (∀ e ∈ (turn s t).errs, e.verdict = .err ∧ accepted e = false) := turn_filtered s t

end Props.C01
