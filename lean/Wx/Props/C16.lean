import Wx.Pure.SerdeTagThm
/-! # C16 — Events survive a JSON round trip and the format is stable

> Serialising any event to JSON and parsing it back yields an equal event, for every tag kind, every filesystem event
> kind, every exit disposition and code, every signal and arbitrary metadata, and the serialised form uses the documented
> field names and values. A tag object of a known kind whose fields are missing or contradictory parses to an explicit
> unknown tag rather than failing or being mistaken for another kind.

`encode` / `decode` model `From<Tag> for SerdeTag` / `From<SerdeTag> for Tag`; the 41-row string table of the `full`
field is regenerated from crates/events/src/serde_formats.rs on every run. The serde/JSON text layer and the field names
are tied by the json stream (byte-level comparison of the real output with the documented names in the driver). -/
namespace Props.C16
open Wp

/-- **round trip, every tag**: any path / file type, all 41 kinds, any source, pid, signal (first-class or any number),
    every disposition with any code allowed by the Rust types (`Tag.wf`: NonZeroI64 / NonZeroI32) -/
theorem round_trip (t : Tag) (h : t.wf) : decode (encode t) = t := decode_encode t h

/-- all 41 kinds survive print-then-decode, and the table has no row the printer cannot produce -/
theorem kinds_round_trip (k : EventKind) : decodeKind k.dbg = k := kind_roundtrip k
theorem table_rows_printable : ∀ r ∈ Gen.kindTable, r.2.dbg = r.1 := table_rows_are_printed

/-- **totality**: for EVERY field combination — missing, extra, contradictory — the result is a tag of the object's own
    kind or the explicit unknown tag, never another kind; and it always satisfies the Rust types' invariants -/
theorem never_another_kind (v : SerdeTag) : (decode v).kind = v.kind ∨ decode v = .unknown := decode_total v
theorem decoded_is_well_formed (v : SerdeTag) : (decode v).wf := decode_wf v

/-- every event: the whole tag list survives (each tag by `round_trip`) -/
theorem event_tags_round_trip (ts : List Tag) (h : ∀ t ∈ ts, t.wf) : (ts.map encode).map decode = ts := tags_round_trip ts h

end Props.C16
