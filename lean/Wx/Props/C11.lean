import Wx.Glob.C11Inst
import Wx.Glob.GlobThm
import Wx.Glob.GlobPath2
import Wx.Glob.GlobPath3
/-! # C11 — Path filter verdicts follow the documented glob, ignore and extension rules

> For the default path filterer an event without paths always passes and an event naming an explicitly watched file
> always passes; otherwise the event is rejected if the loaded ignore files reject it, and else passes exactly when at
> least one of its paths is not matched by an ignore pattern and, if filter patterns or extensions are configured,
> matches a filter pattern or (being a non-directory) has one of the extensions. Ignore patterns take precedence over
> filters, adding a non-negated ignore pattern can only turn passes into rejections, and an empty configuration passes everything.

`Sp.C11.checkEvent e c paths` is the decision with everything external as parameters (`Env`: the glob matcher, the
`origin//rel` re-match, the whitelist test, the ignore-file layer, `Path::extension`); `Sp.GS.checkEventC` is that decision
instantiated with the concrete models — the function the correspondence stream runs against `GlobsetFilterer::check_event`. -/
namespace Props.C11
open Sp.C11

theorem no_paths_passes (e : Env) (c : Cfg) (h : e.igfPass [] = true) : checkEvent e c [] = true := no_paths_pass e c h

theorem whitelisted_file_passes (e : Env) (c : Cfg) (ps : List PTag) (p : PTag) (hp : p ∈ ps) (hw : e.whitelisted p = true) :
    checkEvent e c ps = true := whitelisted_pass e c ps p hp hw

theorem ignore_files_reject (e : Env) (c : Cfg) (ps : List PTag) (hw : ps.any e.whitelisted = false) (hi : e.igfPass ps = false) :
    checkEvent e c ps = false := igf_rejects e c ps hw hi

/-- **the rule**: otherwise pass ⇔ some path is not matched by an ignore pattern and is wanted -/
theorem the_rule (e : Env) (c : Cfg) (ps : List PTag) (hw : ps.any e.whitelisted = false) (hi : e.igfPass ps = true) (hne : ps ≠ []) :
    checkEvent e c ps = true ↔ ∃ p ∈ ps, verdict e.mt c.ignores p ≠ .ignore ∧ wanted e c p = true := check_iff e c ps hw hi hne

/-- wanted ⇔ (filters configured and one matches, directly or through the `origin//rel` re-match inside the origin) or
    (a non-directory with a listed extension); everything is wanted when neither filters nor extensions are configured -/
theorem wanted_means (e : Env) (c : Cfg) (p : PTag) (h : numFilters c > 0 ∨ c.exts ≠ []) :
    wanted e c p = true ↔
      (numFilters c > 0 ∧ (verdict e.mt c.filters p = .ignore ∨ (e.inOrigin p = true ∧ verdict e.mtRebased c.filters p = .ignore))) ∨
      (p.isDir = false ∧ ∃ x, e.ext p = some x ∧ x ∈ c.exts) := wanted_iff e c p h

/-- **ignore precedence**: if every path is matched by an ignore pattern the event is rejected, whatever the filters say -/
theorem ignores_beat_filters (e : Env) (c : Cfg) (ps : List PTag) (hw : ps.any e.whitelisted = false)
    (h : ∀ p ∈ ps, verdict e.mt c.ignores p = .ignore) (hne : ps ≠ []) : checkEvent e c ps = false := ignore_precedence e c ps hw h hne

/-- **monotone**: inserting a non-negated ignore pattern at any position can only turn a pass into a rejection -/
theorem adding_an_ignore_only_rejects_more (e : Env) (c : Cfg) (a b : List G) (g : G) (hg : g.neg = false) (hc : c.ignores = a ++ b)
    (ps : List PTag) (h : checkEvent e { c with ignores := a ++ g :: b } ps = true) : checkEvent e c ps = true :=
  ignore_monotone e c a b g hg hc ps h

theorem empty_configuration_passes_everything (e : Env) (ps : List PTag) (hi : e.igfPass ps = true) :
    checkEvent e ⟨[], [], []⟩ ps = true := empty_passes e ps hi

/-- the same clauses for the concrete function the stream validates -/
theorem concrete_instances (g : Sp.GS.GF) :
    Sp.GS.checkEventC g [] = true ∧
    (∀ ps p, p ∈ ps → g.whitelist.any (fun w => Sp.IF.splitComps w == Sp.IF.splitComps p.path) = true → Sp.GS.checkEventC g ps = true) :=
  ⟨Sp.GS.c11_no_paths g, fun ps p hp hw => Sp.GS.c11_whitelisted g ps p hp hw⟩

/-! ### "follow the documented glob rules": what the lines of the property's grammar mean

The theorems above take the matcher as a parameter. The concrete matcher the stream validates against the real `ignore` crate
(`Sp.Glob`) is characterised exactly on the grammar the property names, for EVERY name, extension and candidate path (`Clean`
text: no glob syntax, slash or blank; `[!]` and a trailing `/` set the negation / directories-only flags and nothing else). -/
open Sp.Glob in
/-- `name` (also `!name`, `name/`): applies at every depth — matches exactly the relative paths whose last component is `name` -/
theorem plain_name_rule (neg onlyDir : Bool) (n : List Char) (h : Clean n) :
    (∃ g, addLine ((if neg then ['!'] else []) ++ n ++ (if onlyDir then ['/'] else [])) = some (some g) ∧
      g.isWhitelist = neg ∧ g.isOnlyDir = onlyDir ∧ ∀ s, mtch g.toks s = true ↔ s = n ∨ ∃ pre, s = pre ++ '/' :: n) :=
  ⟨_, addLine_name neg onlyDir n h, rfl, rfl, fun s => name_matches n s h⟩

open Sp.Glob in
/-- `*.ext`: applies at every depth — matches exactly the paths whose last component is a slash-free stem followed by `.ext` -/
theorem extension_rule (neg onlyDir : Bool) (e : List Char) (h : Clean e) :
    (∃ g, addLine ((if neg then ['!'] else []) ++ '*' :: '.' :: e ++ (if onlyDir then ['/'] else [])) = some (some g) ∧
      g.isWhitelist = neg ∧ g.isOnlyDir = onlyDir ∧
      ∀ s, mtch g.toks s = true ↔ ∃ pre stem, (s = stem ++ '.' :: e ∨ s = pre ++ '/' :: (stem ++ '.' :: e)) ∧ ∀ c ∈ stem, c ≠ '/') :=
  ⟨_, addLine_star_ext neg onlyDir e h, rfl, rfl, fun s => star_ext_matches e s⟩

open Sp.Glob in
/-- `/rooted`: anchored at the directory of the ignore file — matches that relative path only -/
theorem rooted_rule (neg onlyDir : Bool) (n : List Char) (h : Clean n) :
    (∃ g, addLine ((if neg then ['!'] else []) ++ '/' :: n ++ (if onlyDir then ['/'] else [])) = some (some g) ∧
      g.isWhitelist = neg ∧ g.isOnlyDir = onlyDir ∧ ∀ s, mtch g.toks s = true ↔ s = n) :=
  ⟨_, addLine_rooted neg onlyDir n h, rfl, rfl, fun s => rooted_matches n s h⟩

open Sp.Glob in
/-- `a/b`: a slash inside anchors too — matches the relative path `a/b` only (not `x/a/b`) -/
theorem inner_slash_rule (neg onlyDir : Bool) (a b : List Char) (ha : Clean a) (hb : Clean b) :
    (∃ g, addLine ((if neg then ['!'] else []) ++ (a ++ '/' :: b) ++ (if onlyDir then ['/'] else [])) = some (some g) ∧
      g.isWhitelist = neg ∧ g.isOnlyDir = onlyDir ∧ ∀ s, mtchToks g.toks s = true ↔ s = a ++ '/' :: b) :=
  ⟨_, addLine_inner_slash neg onlyDir a b ha hb, rfl, rfl, fun s => lits_iff _ s⟩

open Sp.Glob in
/-- `x/**`: matches exactly the paths strictly below `x` -/
theorem dir_contents_rule (neg : Bool) (x : List Char) (h : Clean x) :
    (∃ g, addLine ((if neg then ['!'] else []) ++ (x ++ ['/', '*', '*'])) = some (some g) ∧
      g.isWhitelist = neg ∧ ∀ s, mtch g.toks s = true ↔ ∃ rest, s = x ++ '/' :: rest) :=
  ⟨_, addLine_dir_contents neg x h, rfl, fun s => dir_contents_matches x s h⟩

open Sp.Glob in
/-- … and at the level of paths (`matched_path_or_any_parents`): an ignore line `*.ext` rejects exactly the paths that have a
    component ending in `.ext` — the file `a/b.ext`, and everything below a directory `x.ext/` -/
theorem extension_line_rejects_by_component (e orig root path : List Char) (he : Clean e) (cs : List (List Char)) (hne : cs ≠ [])
    (hcs : ∀ x ∈ cs, Comp x) (hstrip : strip root path = join cs) (isDir : Bool) :
    matchedOrParents root [extGlob orig e] path isDir ≠ .none ↔ ∃ c ∈ cs, ∃ stem, c = stem ++ '.' :: e :=
  ext_ignores_iff e orig root path he cs hne hcs hstrip isDir

open Sp.Glob in
/-- `dir/` at the level of paths: a directory called `name` and everything below a directory called `name` — never a FILE
    called `name` -/
theorem directory_line_rejects_directories_only (n orig root path : List Char) (hn : Clean n) (cs : List (List Char)) (hne : cs ≠ [])
    (hcs : ∀ x ∈ cs, Comp x) (hstrip : strip root path = join cs) (isDir : Bool) :
    matchedOrParents root [dirGlob orig n] path isDir ≠ .none ↔ (isDir = true ∧ ∃ h : cs ≠ [], cs.getLast h = n) ∨ ∃ c ∈ cs.dropLast, c = n :=
  dir_line_ignores_iff n orig root path hn cs hne hcs hstrip isDir

/-- non-vacuity: `Clean` text exists, and the rules say what one expects on it (kernel-evaluated) -/
example : Sp.Glob.Clean "target".toList ∧ Sp.Glob.Clean "rs".toList :=
  ⟨⟨by decide, by decide, by decide⟩, ⟨by decide, by decide, by decide⟩⟩

end Props.C11
