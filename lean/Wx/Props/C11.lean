import Wx.Glob.C11Inst
/-! # C11 — Path filter verdicts follow the documented glob, ignore and extension rules

> For the default path filterer an event without paths always passes and an event naming an explicitly watched file
> always passes; otherwise the event is rejected if the loaded ignore files reject it, and else passes exactly when at
> least one of its paths is not matched by an ignore pattern and, if filter patterns or extensions are configured,
> matches a filter pattern or (being a non-directory) has one of the extensions. Ignore patterns take precedence over
> filters, adding a non-negated ignore pattern can only turn passes into rejections, and an empty configuration passes everything.

`Sp.C11.checkEvent e c paths` is the decision with everything external as parameters (`Env`: the glob matcher, the
`origin//rel` re-match, the whitelist test, the ignore-file layer, `Path::extension`); `Sp.GS.checkEventC` is that decision
instantiated with the concrete models — the function the correspondence stream runs against `GlobsetFilterer::check_event`. -/
namespace Props.C11
open Sp.C11

theorem no_paths_passes (e : Env) (c : Cfg) (h : e.igfPass [] = true) : checkEvent e c [] = true := no_paths_pass e c h

theorem whitelisted_file_passes (e : Env) (c : Cfg) (ps : List PTag) (p : PTag) (hp : p ∈ ps) (hw : e.whitelisted p = true) :
    checkEvent e c ps = true := whitelisted_pass e c ps p hp hw

theorem ignore_files_reject (e : Env) (c : Cfg) (ps : List PTag) (hw : ps.any e.whitelisted = false) (hi : e.igfPass ps = false) :
    checkEvent e c ps = false := igf_rejects e c ps hw hi

/-- **the rule**: otherwise pass ⇔ some path is not matched by an ignore pattern and is wanted -/
theorem the_rule (e : Env) (c : Cfg) (ps : List PTag) (hw : ps.any e.whitelisted = false) (hi : e.igfPass ps = true) (hne : ps ≠ []) :
    checkEvent e c ps = true ↔ ∃ p ∈ ps, verdict e.mt c.ignores p ≠ .ignore ∧ wanted e c p = true := check_iff e c ps hw hi hne

/-- wanted ⇔ (filters configured and one matches, directly or through the `origin//rel` re-match inside the origin) or
    (a non-directory with a listed extension); everything is wanted when neither filters nor extensions are configured -/
theorem wanted_means (e : Env) (c : Cfg) (p : PTag) (h : numFilters c > 0 ∨ c.exts ≠ []) :
    wanted e c p = true ↔
      (numFilters c > 0 ∧ (verdict e.mt c.filters p = .ignore ∨ (e.inOrigin p = true ∧ verdict e.mtRebased c.filters p = .ignore))) ∨
      (p.isDir = false ∧ ∃ x, e.ext p = some x ∧ x ∈ c.exts) := wanted_iff e c p h

/-- **ignore precedence**: if every path is matched by an ignore pattern the event is rejected, whatever the filters say -/
theorem ignores_beat_filters (e : Env) (c : Cfg) (ps : List PTag) (hw : ps.any e.whitelisted = false)
    (h : ∀ p ∈ ps, verdict e.mt c.ignores p = .ignore) (hne : ps ≠ []) : checkEvent e c ps = false := ignore_precedence e c ps hw h hne

/-- **monotone**: inserting a non-negated ignore pattern at any position can only turn a pass into a rejection -/
theorem adding_an_ignore_only_rejects_more (e : Env) (c : Cfg) (a b : List G) (g : G) (hg : g.neg = false) (hc : c.ignores = a ++ b)
    (ps : List PTag) (h : checkEvent e { c with ignores := a ++ g :: b } ps = true) : checkEvent e c ps = true :=
  ignore_monotone e c a b g hg hc ps h

theorem empty_configuration_passes_everything (e : Env) (ps : List PTag) (hi : e.igfPass ps = true) :
    checkEvent e ⟨[], [], []⟩ ps = true := empty_passes e ps hi

/-- the same clauses for the concrete function the stream validates -/
theorem concrete_instances (g : Sp.GS.GF) :
    Sp.GS.checkEventC g [] = true ∧
    (∀ ps p, p ∈ ps → g.whitelist.any (fun w => Sp.IF.splitComps w == Sp.IF.splitComps p.path) = true → Sp.GS.checkEventC g ps = true) :=
  ⟨Sp.GS.c11_no_paths g, fun ps p hp hw => Sp.GS.c11_whitelisted g ps p hp hw⟩

end Props.C11
