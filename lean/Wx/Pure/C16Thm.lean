import Wx.Pure.C16
/-! C16: the generated kind table round-trips; kept apart from the model file. -/
namespace Wp
open Wp.Gen

/-- every one of the 41 kinds survives print-then-decode -/
theorem kind_roundtrip_all : ∀ k ∈ allKinds, decodeKind k.dbg = k := by decide +kernel

theorem kind_roundtrip (k : EventKind) : decodeKind k.dbg = k := kind_roundtrip_all k (allKinds_complete k)

/-- the table has no row the printer cannot produce, and no duplicates -/
theorem table_rows_are_printed : ∀ r ∈ kindTable, r.2.dbg = r.1 := by decide +kernel

#print axioms kind_roundtrip
end Wp
