import Wx.Pure.Kinds
import Wx.Pure.Gen.KindTable
namespace Wp
open Wp.Gen

/-- `From<SerdeTag> for Tag`, the `full` string branch -/
def decodeKind (s : Str) : EventKind :=
  match kindTable.find? (·.1 == s) with
  | some (_, k) => k
  | none => kindFallback

end Wp
