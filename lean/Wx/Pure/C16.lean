import Wx.Pure.Kinds
import Wx.Pure.Gen.KindTable
namespace Wp
open Wp.Gen

/-- `From<SerdeTag> for Tag`, the `full` string branch -/
def decodeKind (s : Str) : EventKind :=
  match kindTable.find? (·.1 == s) with
  | some (_, k) => k
  | none => kindFallback

/-- every one of the 41 kinds survives print-then-decode -/
theorem kind_roundtrip_all : ∀ k ∈ allKinds, decodeKind k.dbg = k := by decide +kernel

theorem kind_roundtrip (k : EventKind) : decodeKind k.dbg = k := kind_roundtrip_all k (allKinds_complete k)

/-- the table has no row the printer cannot produce, and no duplicates -/
theorem table_rows_are_printed : ∀ r ∈ kindTable, r.2.dbg = r.1 := by decide +kernel

#print axioms kind_roundtrip
end Wp
