import Wx.Pure.SerdeTag
import Wx.Pure.C16Thm
/-! C16: round-trip theorems for the tag conversions; kept apart from the model file. -/
namespace Wp
open Wp.Gen

/-- what Rust's types guarantee about a `Tag` (NonZeroI64 / NonZeroI32 payloads) -/
def Tag.wf : Tag → Prop
  | .completion (some (.exitError c)) => c ≠ 0
  | .completion (some (.exitStop c)) => c ≠ 0 ∧ inI32 c = true
  | .completion (some (.exception c)) => c ≠ 0 ∧ inI32 c = true
  | _ => True

/-- **C16 round trip**: every well-formed tag survives encode-then-decode -/
theorem decode_encode (t : Tag) (h : t.wf) : decode (encode t) = t := by
  cases t with
  | path p ft => rfl
  | fek k => simp only [encode, decode]; rw [kind_roundtrip]
  | source s => rfl
  | keyboard k => rfl
  | process pid => rfl
  | signal s => rfl
  | unknown => rfl
  | completion e =>
    cases e with
    | none => rfl
    | some e =>
      cases e with
      | success => rfl
      | continued => rfl
      | exitSignal s => rfl
      | exitError c => simp only [Tag.wf] at h; simp [encode, decode, h]
      | exitStop c => simp only [Tag.wf] at h; simp [encode, decode, h.1, h.2]
      | exception c => simp only [Tag.wf] at h; simp [encode, decode, h.1, h.2]

def Tag.kind : Tag → TagKind
  | .path .. => .path | .fek _ => .fs | .source _ => .source | .keyboard _ => .keyboard | .process _ => .process
  | .signal _ => .signal | .completion _ => .completion | .unknown => .none

/-- **C16 totality**: whatever fields are present, missing or contradictory, the result is a tag of the
    object's own kind or the explicit unknown tag — never another kind -/
theorem decode_total (v : SerdeTag) : (decode v).kind = v.kind ∨ decode v = .unknown := by
  unfold decode
  cases hk : v.kind <;> simp only []
  all_goals first
    | (right; rfl)
    | (repeat' split) <;> first | (right; rfl) | (left; rfl)

/-- and what it decodes to is always well-formed -/
theorem decode_wf (v : SerdeTag) : (decode v).wf := by
  unfold decode
  cases hk : v.kind <;> simp only []
  all_goals first
    | trivial
    | (repeat' split) <;> first | trivial | (simp_all [Tag.wf])

#print axioms decode_encode
#print axioms decode_total
/-- a whole event: its tag list survives tag by tag (metadata is a string map handed to serde unchanged) -/
theorem tags_round_trip (ts : List Tag) (h : ∀ t ∈ ts, t.wf) : (ts.map encode).map decode = ts := by
  induction ts with
  | nil => rfl
  | cons t ts ih =>
    simp only [List.map_cons]
    rw [decode_encode t (h t List.mem_cons_self), ih (fun t' ht' => h t' (List.mem_cons_of_mem _ ht'))]

end Wp
