import Wx.Pure.C17
import Wx.Pure.Gen.EnvBuckets
/-! C17: statements about the whole summary and the line format. -/
namespace Wp
open List

theorem insertS_mem (x y : Str) : ∀ l, y ∈ insertS x l ↔ y = x ∨ y ∈ l
  | [] => by simp [insertS]
  | z :: r => by
    unfold insertS
    split
    · simp
    · split
      · next h => subst h; simp
      · simp only [List.mem_cons, insertS_mem x y r]
        constructor
        · rintro (h | h | h) <;> simp [h]
        · rintro (h | h | h) <;> simp [h]

theorem lt_of_not (x y : Str) (h1 : ¬ x < y) (h2 : ¬ x = y) : y < x := by
  rcases List.le_iff_lt_or_eq.1 (List.not_lt.1 h1) with h | h
  · exact h
  · exact absurd h.symm h2

theorem insertS_sorted (x : Str) : ∀ l, l.Pairwise (· < ·) → (insertS x l).Pairwise (· < ·)
  | [], _ => by simp [insertS]
  | z :: r, h => by
    unfold insertS
    rw [List.pairwise_cons] at h
    split
    · next hx =>
      refine List.pairwise_cons.2 ⟨?_, List.pairwise_cons.2 h⟩
      intro a ha
      rcases List.mem_cons.1 ha with rfl | ha
      · exact hx
      · exact List.lt_trans hx (h.1 a ha)
    · split
      · exact List.pairwise_cons.2 h
      · next h1 h2 =>
        refine List.pairwise_cons.2 ⟨?_, insertS_sorted x r h.2⟩
        intro a ha
        rcases (insertS_mem x a r).1 ha with rfl | ha
        · exact lt_of_not _ _ h1 h2
        · exact h.1 a ha

theorem foldl_insertS (l : List Str) : ∀ acc, acc.Pairwise (· < ·) →
    (l.foldl (fun acc x => insertS x acc) acc).Pairwise (· < ·) ∧
    ∀ y, y ∈ l.foldl (fun acc x => insertS x acc) acc ↔ y ∈ l ∨ y ∈ acc := by
  induction l with
  | nil => intro acc h; simp [h]
  | cons x l ih =>
    intro acc h
    simp only [List.foldl_cons]
    obtain ⟨h1, h2⟩ := ih (insertS x acc) (insertS_sorted x acc h)
    refine ⟨h1, fun y => ?_⟩
    rw [h2, insertS_mem, List.mem_cons]
    constructor
    · rintro (h | h | h) <;> simp [h]
    · rintro ((h | h) | h) <;> simp [h]

/-- byte-sorted, de-duplicated, and exactly the given entries -/
theorem sortDedup_spec (l : List Str) :
    (sortDedup l).Pairwise (· < ·) ∧ ∀ y, y ∈ sortDedup l ↔ y ∈ l := by
  have := foldl_insertS l [] List.Pairwise.nil
  exact ⟨this.1, fun y => by rw [sortDedup, this.2]; simp⟩

/-- the documented kind → variable table (`bucket`, transcribed from the rustdoc of `summarise_events_to_env`) is the
    `match` in the code (`Gen.bucketGen`, regenerated from crates/lib/src/paths.rs on every run) — all 41 kinds -/
theorem bucket_is_code_all : ∀ k ∈ allKinds, bucket k = Gen.bucketGen k := by decide
theorem bucket_is_code (k : EventKind) : bucket k = Gen.bucketGen k := bucket_is_code_all k (allKinds_complete k)

theorem bucket_mem (k : EventKind) : bucket k ∈ bucketNames := by
  unfold bucket bucketNames; split <;> simp

theorem mem_bucketPaths {evs : List Ev} {b : String} {p : P} :
    p ∈ bucketPaths evs b ↔
      ∃ e ∈ evs, (∃ k ∈ e.kinds, bucket k = b) ∧ ∃ ft, (p, ft) ∈ e.paths := by
  simp only [bucketPaths, pathed, List.mem_flatMap, List.mem_filter]
  constructor
  · rintro ⟨e, ⟨he, _⟩, hp⟩
    by_cases hb : hasBucket b e = true
    · rw [if_pos hb] at hp
      simp only [List.mem_map] at hp
      obtain ⟨⟨p', ft⟩, hm, rfl⟩ := hp
      refine ⟨e, he, ?_, ft, hm⟩
      simpa [hasBucket] using hb
    · rw [if_neg hb] at hp; cases hp
  · rintro ⟨e, he, hk, ft, hm⟩
    refine ⟨e, ⟨he, ?_⟩, ?_⟩
    · cases hp : e.paths with
      | nil => rw [hp] at hm; cases hm
      | cons _ _ => rfl
    · have hb : hasBucket b e = true := by simpa [hasBucket] using hk
      rw [if_pos hb]
      exact List.mem_map.2 ⟨(p, ft), hm, rfl⟩

/-- Categorisation: the variable `b` is present iff some pathed event has a kind of that bucket, and
its entries are exactly the entries of those events' paths, byte-sorted without duplicates.
Events with no path or no kind contribute nothing (they satisfy neither side). -/
theorem summarise_vars (evs : List Ev) (b : String) (es : List Str) :
    (b, es) ∈ (summarise evs).2 ↔
      b ∈ bucketNames ∧ bucketPaths evs b ≠ [] ∧
      es = sortDedup ((bucketPaths evs b).map (entryOf (summarise evs).1)) := by
  simp only [summarise, List.mem_filterMap]
  constructor
  · rintro ⟨b', hb', h⟩
    split at h
    · cases h
    · next hne =>
      injection h with h; injection h with h1 h2
      subst h1
      exact ⟨hb', by simpa using hne, h2.symm⟩
  · rintro ⟨hb, hne, rfl⟩
    refine ⟨b, hb, ?_⟩
    rw [if_neg (by simpa using hne)]

theorem summarise_entries (evs : List Ev) (b : String) (es : List Str) (h : (b, es) ∈ (summarise evs).2) :
    es.Pairwise (· < ·) ∧
    ∀ y, y ∈ es ↔ ∃ e ∈ evs, (∃ k ∈ e.kinds, bucket k = b) ∧ ∃ p ft, (p, ft) ∈ e.paths ∧
                    y = entryOf (summarise evs).1 p := by
  obtain ⟨_, _, rfl⟩ := (summarise_vars evs b es).1 h
  refine ⟨(sortDedup_spec _).1, fun y => ?_⟩
  rw [(sortDedup_spec _).2, List.mem_map]
  constructor
  · rintro ⟨p, hp, rfl⟩
    obtain ⟨e, he, hk, ft, hm⟩ := mem_bucketPaths.1 hp
    exact ⟨e, he, hk, p, ft, hm, rfl⟩
  · rintro ⟨e, he, hk, p, ft, hm, rfl⟩
    exact ⟨p, mem_bucketPaths.2 ⟨e, he, hk, ft, hm⟩, rfl⟩

/-- every path of every event with a kind is listed in the variable of each of its kinds -/
theorem summarise_complete (evs : List Ev) (e : Ev) (he : e ∈ evs) (k : EventKind) (hk : k ∈ e.kinds)
    (p : P) (ft : Option FT) (hp : (p, ft) ∈ e.paths) :
    ∃ es, (bucket k, es) ∈ (summarise evs).2 ∧ entryOf (summarise evs).1 p ∈ es := by
  have hm : p ∈ bucketPaths evs (bucket k) := mem_bucketPaths.2 ⟨e, he, ⟨k, hk, rfl⟩, ft, hp⟩
  refine ⟨_, (summarise_vars evs _ _).2 ⟨bucket_mem k, List.ne_nil_of_mem hm, rfl⟩, ?_⟩
  rw [(sortDedup_spec _).2]
  exact List.mem_map.2 ⟨p, hm, rfl⟩

/-- Faithfulness: when COMMON is set, the entry listed for any path of any event is a relative path
whose join with COMMON is the original path. -/
theorem entry_faithful (evs : List Ev) (c : P) (hc : (summarise evs).1 = some c)
    (e : Ev) (he : e ∈ evs) (p : P) (ft : Option FT) (hp : (p, ft) ∈ e.paths) :
    ∃ s, s.abs = false ∧ c.join s = p ∧ entryOf (some c) p = s.render := by
  have hc' : commonPrefix (trunks evs) = some c := hc
  have hmem : trunk p ft ∈ trunks evs := by
    simp only [trunks, pathed, List.mem_flatMap, List.mem_filter, List.mem_map]
    refine ⟨e, ⟨he, ?_⟩, (p, ft), hp, rfl⟩
    cases h : e.paths with
    | nil => rw [h] at hp; cases hp
    | cons _ _ => rfl
  have hu : c.under p := under_trans (common_is_prefix hc' _ hmem) (trunk_under p ft)
  obtain ⟨_, _, _, _, hne⟩ := commonPrefix_some hc'
  obtain ⟨s, hs, habs, hj⟩ := strip_join hu hne
  exact ⟨s, habs, hj, by simp [entryOf, hs]⟩

/-- without COMMON the full path is listed -/
theorem entry_no_common (p : P) : entryOf none p = p.render := rfl

/-- COMMON is the longest common directory of the trunks of all pathed events -/
theorem common_longest (evs : List Ev) (c : P) (hc : (summarise evs).1 = some c) :
    (∀ t ∈ trunks evs, c.under t) ∧ ∀ d : P, (∀ t ∈ trunks evs, d.under t) → d.under c :=
  ⟨common_is_prefix hc, common_is_longest hc⟩

/-! the line format -/
def eventLines (e : Ev) : List Str :=
  e.paths.flatMap (fun (p, _) =>
    if e.kinds.isEmpty then ["other:".toList ++ p.render]
    else e.kinds.map (fun k => (simpleName k).toList ++ [':'] ++ p.render))

/-- event order is kept: the text is the concatenation of the per-event blocks -/
theorem simpleFormat_eq (evs : List Ev) : simpleFormat evs = evs.flatMap eventLines := rfl

theorem simpleFormat_append (a b : List Ev) : simpleFormat (a ++ b) = simpleFormat a ++ simpleFormat b := by
  simp [simpleFormat]

/-- one line per (kind, path) pair of the event -/
theorem eventLines_length (e : Ev) (h : e.kinds ≠ []) : (eventLines e).length = e.paths.length * e.kinds.length := by
  unfold eventLines
  have : e.kinds.isEmpty = false := by cases hk : e.kinds <;> simp_all
  simp only [this]
  induction e.paths with
  | nil => simp
  | cons x r ih =>
    rw [List.flatMap_cons, List.length_append, ih]
    simp [Nat.succ_mul, Nat.add_comm]

end Wp
