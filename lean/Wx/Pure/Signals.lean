import Wx.Base.Str
import Wx.Pure.Gen.Signals
import Wx.Pure.Gen.NixTable
/-! C19: signal names / numbers, and exit statuses. Text is `List Char` throughout (kernel-reducible). -/
namespace Wp
open Wp.Gen



def nixName? (n : Int) : Option Str := (nixTable.find? (·.1 == n)).map (·.2)
def nixNum? (name : Str) : Option Int := (nixTable.find? (·.2 == name)).map (·.1)

/-- `Signal::to_nix` as a NUMBER (none = not a valid OS signal) -/
def toNix : Signal → Option Int
  | .custom n => (nixName? n).map (fun _ => n)
  | s => (toNixName s).bind nixNum?

/-- `Signal::from_nix` (argument: a valid nix signal number) -/
def fromNix (n : Int) : Signal :=
  match nixName? n with
  | some name => match fromNixTable.find? (·.1 == name) with
    | some (_, s) => s
    | none => .custom n
  | none => .custom n

/-- `From<i32>` -/
def fromI32 (n : Int) : Signal := match fromI32Table.find? (·.1 == n) with | some (_, s) => s | none => .custom n

/-- `u8::to_ascii_uppercase` on one character, as a table (so that facts about it are finite case splits) -/
def upperC (c : Char) : Char :=
  match c with
  | 'a' => 'A' | 'b' => 'B' | 'c' => 'C' | 'd' => 'D' | 'e' => 'E' | 'f' => 'F' | 'g' => 'G' | 'h' => 'H' | 'i' => 'I'
  | 'j' => 'J' | 'k' => 'K' | 'l' => 'L' | 'm' => 'M' | 'n' => 'N' | 'o' => 'O' | 'p' => 'P' | 'q' => 'Q' | 'r' => 'R'
  | 's' => 'S' | 't' => 'T' | 'u' => 'U' | 'v' => 'V' | 'w' => 'W' | 'x' => 'X' | 'y' => 'Y' | 'z' => 'Z'
  | c => c
def lowerC (c : Char) : Char := if 'A' ≤ c ∧ c ≤ 'Z' then Char.ofNat (c.toNat + 32) else c
def toUpper (s : Str) : Str := s.map upperC

/-- decimal digits of a natural number -/
def digits : Nat → Nat → Str
  | 0, _ => []
  | fuel + 1, n => if n < 10 then [Char.ofNat (48 + n)] else digits fuel (n / 10) ++ [Char.ofNat (48 + n % 10)]
def showInt (n : Int) : Str := if n < 0 then '-' :: digits 12 n.natAbs else digits 12 n.natAbs

/-- `i32::from_str` on a plain decimal (optional sign) -/
def parseInt (s : Str) : Option Int :=
  let (neg, ds) := match s with | '-' :: r => (true, r) | '+' :: r => (false, r) | r => (false, r)
  if ds.isEmpty || !ds.all Char.isDigit then none else
  let n : Nat := ds.foldl (fun (acc : Nat) c => acc * 10 + (c.toNat - 48)) 0
  some (if neg then -(n : Int) else (n : Int))

/-- `Display` (unix) -/
def display : Signal → Str
  | .custom n => showInt n
  | s => match displayTable.find? (·.1 == s) with | some (_, d) => d | none => ['?']

/-- `from_unix_str` -/
def fromUnixStr (s : Str) : Option Signal :=
  let byName : Option Signal :=
    let u := toUpper s
    match nixNum? u with
    | some n => some (fromNix n)
    | none => (nixNum? (['S', 'I', 'G'] ++ u)).map fromNix
  match parseInt s with
  | some n => match nixName? n with
    | some _ => some (fromNix n)
    | none => byName
  | none => byName

/-- `from_windows_str` -/
def fromWindowsStr (s : Str) : Option Signal := (windowsTable.find? (·.1 == toUpper s)).map (·.2)

/-- `FromStr`: control names first -/
def parse (s : Str) : Option Signal := match fromWindowsStr s with | some x => some x | none => fromUnixStr s

/-! ### exit statuses (Linux wait-status encoding, as std decodes it) -/

inductive ProcessEnd | success | exitError (code : Int) | exitSignal (s : Signal) | exitStop (sig : Int) | continued
  deriving DecidableEq, Repr

def wifexited (st : Nat) : Bool := st % 128 == 0
def wexitstatus (st : Nat) : Nat := (st / 256) % 256
def wifsignaled (st : Nat) : Bool := let lo := st % 128; lo != 0 && lo != 127
def wtermsig (st : Nat) : Nat := st % 128
def wifstopped (st : Nat) : Bool := st % 256 == 127
def wstopsig (st : Nat) : Nat := (st / 256) % 256
def wifcontinued (st : Nat) : Bool := st == 65535

/-- `ProcessEnd::from(ExitStatus)` on unix: `match (code(), signal(), stopped_signal())` -/
def fromStatus (st : Nat) : ProcessEnd :=
  let code := if wifexited st then some (wexitstatus st) else none
  let sig := if wifsignaled st then some (wtermsig st) else none
  let stop := if wifstopped st then some (wstopsig st) else none
  match code, sig, stop with
  | some c, _, _ => if c == 0 then .success else .exitError c
  | none, some _, some s => if s == 0 then .success else .exitStop s
  | none, some g, none => if wifcontinued st then .continued else .exitSignal (fromI32 g)
  | none, none, _ => .success

end Wp
