import Wx.Pure.Kinds
/-! C17: lib/src/paths.rs (`common_prefix`, `summarise_events_to_env`) and cli/src/emits.rs (`events_to_simple_format`). -/
namespace Wp

/-- a unix path as `std::path` sees it: optional root, then normal components -/
structure P where
  abs : Bool
  comps : List Str
  deriving DecidableEq, Repr

def P.render (p : P) : Str :=
  let body := (p.comps.intersperse ['/']).flatten
  if p.abs then '/' :: body else body

/-- `Path::parent` -/
def P.parent (p : P) : Option P :=
  match p.comps.reverse with
  | [] => none                                  -- "/" or "" have no parent
  | _ :: r => some { p with comps := r.reverse }

/-- `Path::strip_prefix` (component-wise) -/
def P.strip (pre p : P) : Option P :=
  if pre.abs == p.abs && pre.comps.length ≤ p.comps.length && p.comps.take pre.comps.length == pre.comps
  then some { abs := false, comps := p.comps.drop pre.comps.length }
  else if !pre.abs && pre.comps.isEmpty then some p else none

/-- `Path::join` for a relative right-hand side -/
def P.join (a b : P) : P := if b.abs then b else { a with comps := a.comps ++ b.comps }

/-- components as `Path::components` yields them: RootDir is a component too -/
def P.cs (p : P) : List (Option Str) := (if p.abs then [none] else []) ++ p.comps.map some

def ofCs (l : List (Option Str)) : P :=
  match l with
  | none :: r => { abs := true, comps := r.filterMap id }
  | r => { abs := false, comps := r.filterMap id }

def commonLen : List (Option Str) → List (Option Str) → Nat
  | a :: as, b :: bs => if a == b then commonLen as bs + 1 else 0
  | _, _ => 0

/-- `common_prefix` -/
def commonPrefix (paths : List P) : Option P :=
  match paths with
  | [] => none
  | first :: rest =>
    let longest := rest.foldl (fun acc p => acc.take (commonLen p.cs acc)) first.cs
    if longest.isEmpty then none else some (ofCs longest)

inductive FT | file | dir | symlink | other deriving DecidableEq, Repr

structure Ev where
  paths : List (P × Option FT)
  kinds : List EventKind
  deriving Repr

/-- the variable a kind is reported in -/
def bucket : EventKind → String
  | .modify (.data _) => "WRITTEN"
  | .access (.close .write) => "WRITTEN"
  | .modify (.metadata _) => "META_CHANGED"
  | .remove _ => "REMOVED"
  | .create _ => "CREATED"
  | .modify (.name _) => "RENAMED"
  | _ => "OTHERWISE_CHANGED"

def trunk (p : P) (ft : Option FT) : P :=
  match ft with
  | some .dir => p
  | _ => (p.parent).getD p

/-- insert into a strictly increasing list -/
def insertS (x : Str) : List Str → List Str
  | [] => [x]
  | y :: r => if x < y then x :: y :: r else if x = y then y :: r else y :: insertS x r

def bucketNames : List String := ["CREATED", "META_CHANGED", "OTHERWISE_CHANGED", "REMOVED", "RENAMED", "WRITTEN"]

def pathed (evs : List Ev) : List Ev := evs.filter (fun e => !e.paths.isEmpty)

def trunks (evs : List Ev) : List P := (pathed evs).flatMap (fun e => e.paths.map (fun (p, ft) => trunk p ft))

/-- what is listed for path `p` given COMMON -/
def entryOf (common : Option P) (p : P) : Str :=
  match common.bind (fun c => c.strip p) with | some s => s.render | none => p.render

def hasBucket (b : String) (e : Ev) : Bool := e.kinds.any (fun k => bucket k == b)

def bucketPaths (evs : List Ev) (b : String) : List P :=
  (pathed evs).flatMap (fun e => if hasBucket b e then e.paths.map (·.1) else [])

def sortDedup (l : List Str) : List Str := l.foldl (fun acc x => insertS x acc) []

/-- `summarise_events_to_env`: COMMON (if any) and, per variable, its entries (sorted, de-duplicated) -/
def summarise (evs : List Ev) : Option P × List (String × List Str) :=
  let common := commonPrefix (trunks evs)
  let vars := bucketNames.filterMap (fun b =>
    let ps := bucketPaths evs b
    if ps.isEmpty then none else some (b, sortDedup (ps.map (entryOf common))))
  (common, vars)

def simpleName : EventKind → String
  | .any | .other => "other" | .access _ => "access" | .create _ => "create" | .modify _ => "modify" | .remove _ => "remove"

/-- `events_to_simple_format` -/
def simpleFormat (evs : List Ev) : List Str :=
  evs.flatMap (fun e => e.paths.flatMap (fun (p, _) =>
    if e.kinds.isEmpty then ["other:".toList ++ p.render]
    else e.kinds.map (fun k => (simpleName k).toList ++ [':'] ++ p.render)))

end Wp
