/-! C20: project origins and types over directory listings — the SPECIFICATION side. Nothing here is generated: the
    marker tables are the pinned, documented ones, so the model driver answers "what should `origins()` / `types()` return"
    whatever the code's tables currently say. `Wx.Pure.OriginsThm` ties the tables regenerated from the source to these. -/
namespace Wp

inductive Node | file | dir | other deriving DecidableEq, Repr

/-- what `DirList::obtain` sees of one directory -/
abbrev Listing := List (String × Node)

def kindOf (l : Listing) (name : String) : Option Node := (l.find? (·.1 == name)).map (·.2)
def hasFile (l : Listing) (n : String) : Bool := kindOf l n == some .file
def hasDir (l : Listing) (n : String) : Bool := kindOf l n == some .dir
def present (l : Listing) (m : String × Bool) : Bool := if m.2 then hasDir l m.1 else hasFile l m.1

/-- `check_list` over a marker table -/
def isOriginWith (om : List (String × Bool)) (l : Listing) : Bool := !l.isEmpty && om.any (present l)

/-- `origins(path)`: the path itself, then every parent; `chain` = listings from the path up to the root -/
def originsWith (om : List (String × Bool)) (chain : List (String × Listing)) : List String :=
  (chain.filter (fun d => isOriginWith om d.2)).map (·.1)

/-- `types(path)` over a marker table -/
def typesWith {α : Type} (tm : List (String × Bool × α)) (l : Listing) : List α :=
  (tm.filter (fun m => present l (m.1, m.2.1))).map (·.2.2)

/-- the recognised project markers (name, must be a directory), pinned by hand from the list in
    `origins()` at the time the properties were written: what "a recognised project marker" in C20
    refers to. A change to the code's list is a change of what is recognised and breaks the theorem
    below. -/
def recognised : List (String × Bool) := [
  ("_darcs", true), (".bzr", true), (".fossil-settings", true), (".git", true),
  (".github", true), (".hg", true), (".svn", true), (".asf.yaml", false),
  (".bzrignore", false), (".codecov.yml", false), (".ctags", false), (".editorconfig", false),
  (".git", false), (".gitattributes", false), (".gitmodules", false), (".hgignore", false),
  (".hgtags", false), (".perltidyrc", false), (".travis.yml", false), ("appveyor.yml", false),
  ("build.gradle", false), ("build.properties", false), ("build.xml", false), ("Cargo.toml", false),
  ("Cargo.lock", false), ("cgmanifest.json", false), ("CMakeLists.txt", false), ("composer.json", false),
  ("COPYING", false), ("docker-compose.yml", false), ("Dockerfile", false), ("Gemfile", false),
  ("LICENSE.txt", false), ("LICENSE", false), ("Makefile.am", false), ("Makefile.pl", false),
  ("Makefile.PL", false), ("Makefile", false), ("mix.exs", false), ("moonshine-dependencies.xml", false),
  ("package.json", false), ("package-lock.json", false), ("pnpm-lock.yaml", false), ("yarn.lock", false),
  ("pom.xml", false), ("project.clj", false), ("requirements.txt", false), ("v.mod", false),
  ("CONTRIBUTING.md", false), ("go.mod", false), ("go.sum", false), ("Pipfile", false),
  ("build.zig", false)]


/-- the documented type markers (transcribed by hand from the rustdoc of `ProjectType`): name, must be a directory,
    type name as the harness prints it -/
def documentedS : List (String × Bool × String) := [
  (".bzr", true, "bazaar"), (".bzrignore", false, "bazaar"), ("_darcs", true, "darcs"), (".fossil-settings", true, "fossil"),
  (".git", true, "git"), (".git", false, "git"), (".gitattributes", false, "git"), (".gitmodules", false, "git"),
  (".hg", true, "mercurial"), (".hgignore", false, "mercurial"), (".hgtags", false, "mercurial"), (".svn", true, "subversion"),
  ("Gemfile", false, "bundler"), (".ctags", false, "c"), ("Cargo.toml", false, "cargo"), ("Dockerfile", false, "docker"),
  ("mix.exs", false, "elixir"), ("go.mod", false, "go"), ("go.sum", false, "go"), ("build.gradle", false, "gradle"),
  ("package.json", false, "javaScript"), ("cgmanifest.json", false, "javaScript"), ("project.clj", false, "leiningen"), ("pom.xml", false, "maven"),
  (".perltidyrc", false, "perl"), ("Makefile.PL", false, "perl"), ("composer.json", false, "pHP"), ("requirements.txt", false, "pip"),
  ("Pipfile", false, "pip"), ("v.mod", false, "v"), ("build.zig", false, "zig")]

/-- what C20 says `origins()` returns -/
def originsDoc (chain : List (String × Listing)) : List String := originsWith recognised chain
/-- what C20 says `types()` returns (type names) -/
def typesDoc (l : Listing) : List String := typesWith documentedS l

end Wp
