import Wx.Pure.Gen.Origins
/-! C20: project origins and types over directory listings. -/
namespace Wp
open Wp.Gen

inductive Node | file | dir | other deriving DecidableEq, Repr

/-- what `DirList::obtain` sees of one directory -/
abbrev Listing := List (String × Node)

def kindOf (l : Listing) (name : String) : Option Node := (l.find? (·.1 == name)).map (·.2)
def hasFile (l : Listing) (n : String) : Bool := kindOf l n == some .file
def hasDir (l : Listing) (n : String) : Bool := kindOf l n == some .dir
def present (l : Listing) (m : String × Bool) : Bool := if m.2 then hasDir l m.1 else hasFile l m.1

/-- `check_list` -/
def isOrigin (l : Listing) : Bool := !l.isEmpty && originMarkers.any (present l)

/-- `origins(path)`: the path itself, then every parent; `chain` = listings from the path up to the root -/
def origins (chain : List (String × Listing)) : List String :=
  (chain.filter (fun d => isOrigin d.2)).map (·.1)

/-- `types(path)` -/
def types (l : Listing) : List ProjectType :=
  (typeMarkers.filter (fun m => present l (m.1, m.2.1))).map (·.2.2)

/-! ### theorems -/

/-- exactly the marked members of the chain, in order, nothing else — any chain length -/
theorem origins_exact (chain : List (String × Listing)) (d : String) :
    d ∈ origins chain ↔ ∃ l, (d, l) ∈ chain ∧ l ≠ [] ∧ ∃ m ∈ originMarkers, present l m = true := by
  unfold origins isOrigin
  simp only [List.mem_map, List.mem_filter, Bool.and_eq_true, Bool.not_eq_true', List.isEmpty_eq_false_iff,
    List.any_eq_true]
  constructor
  · rintro ⟨⟨d', l⟩, ⟨hm, hne, hmk⟩, rfl⟩; exact ⟨l, hm, hne, hmk⟩
  · rintro ⟨l, hm, hne, hmk⟩; exact ⟨(d, l), ⟨hm, hne, hmk⟩, rfl⟩

theorem origins_sublist (chain : List (String × Listing)) : (origins chain).Sublist (chain.map (·.1)) := by
  unfold origins
  exact List.Sublist.map _ List.filter_sublist

/-- the reported types are exactly those with a marker of the right node type present -/
theorem types_exact (l : Listing) (t : ProjectType) :
    t ∈ types l ↔ ∃ name isDir, (name, isDir, t) ∈ typeMarkers ∧ present l (name, isDir) = true := by
  unfold types
  simp only [List.mem_map, List.mem_filter]
  constructor
  · rintro ⟨⟨n, d, t'⟩, ⟨hm, hp⟩, rfl⟩; exact ⟨n, d, hm, hp⟩
  · rintro ⟨n, d, hm, hp⟩; exact ⟨(n, d, t), ⟨hm, hp⟩, rfl⟩

/-- a directory called like a file marker is not a marker -/
example : types [("Cargo.toml", .dir)] = [] := by decide
example : types [("Cargo.toml", .file), (".git", .dir)] = [.git, .cargo] := by decide

/-- the documented table (transcribed by hand from the rustdoc of `ProjectType`) -/
def documented : List (String × Bool × ProjectType) := [
  (".bzr", true, .bazaar), (".bzrignore", false, .bazaar),
  ("_darcs", true, .darcs),
  (".fossil-settings", true, .fossil),
  (".git", true, .git), (".git", false, .git), (".gitattributes", false, .git), (".gitmodules", false, .git),
  (".hg", true, .mercurial), (".hgignore", false, .mercurial), (".hgtags", false, .mercurial),
  (".svn", true, .subversion),
  ("Gemfile", false, .bundler),
  (".ctags", false, .c),
  ("Cargo.toml", false, .cargo),
  ("Dockerfile", false, .docker),
  ("mix.exs", false, .elixir),
  ("go.mod", false, .go), ("go.sum", false, .go),
  ("build.gradle", false, .gradle),
  ("package.json", false, .javaScript), ("cgmanifest.json", false, .javaScript),
  ("project.clj", false, .leiningen),
  ("pom.xml", false, .maven),
  (".perltidyrc", false, .perl), ("Makefile.PL", false, .perl),
  ("composer.json", false, .pHP),
  ("requirements.txt", false, .pip), ("Pipfile", false, .pip),
  ("v.mod", false, .v),
  ("build.zig", false, .zig)]

/-- the code's table and the documented one have the same rows -/
theorem typeMarkers_documented :
    (∀ m ∈ typeMarkers, m ∈ documented) ∧ (∀ m ∈ documented, m ∈ typeMarkers) := by decide

/-- the recognised project markers (name, must be a directory), pinned by hand from the list in
    `origins()` at the time the properties were written: what "a recognised project marker" in C20
    refers to. A change to the code's list is a change of what is recognised and breaks the theorem
    below. -/
def recognised : List (String × Bool) := [
  ("_darcs", true), (".bzr", true), (".fossil-settings", true), (".git", true),
  (".github", true), (".hg", true), (".svn", true), (".asf.yaml", false),
  (".bzrignore", false), (".codecov.yml", false), (".ctags", false), (".editorconfig", false),
  (".git", false), (".gitattributes", false), (".gitmodules", false), (".hgignore", false),
  (".hgtags", false), (".perltidyrc", false), (".travis.yml", false), ("appveyor.yml", false),
  ("build.gradle", false), ("build.properties", false), ("build.xml", false), ("Cargo.toml", false),
  ("Cargo.lock", false), ("cgmanifest.json", false), ("CMakeLists.txt", false), ("composer.json", false),
  ("COPYING", false), ("docker-compose.yml", false), ("Dockerfile", false), ("Gemfile", false),
  ("LICENSE.txt", false), ("LICENSE", false), ("Makefile.am", false), ("Makefile.pl", false),
  ("Makefile.PL", false), ("Makefile", false), ("mix.exs", false), ("moonshine-dependencies.xml", false),
  ("package.json", false), ("package-lock.json", false), ("pnpm-lock.yaml", false), ("yarn.lock", false),
  ("pom.xml", false), ("project.clj", false), ("requirements.txt", false), ("v.mod", false),
  ("CONTRIBUTING.md", false), ("go.mod", false), ("go.sum", false), ("Pipfile", false),
  ("build.zig", false)]

/-- the code's marker list is the recognised one -/
theorem originMarkers_recognised : originMarkers = recognised := by decide

/-- every type marker also makes the directory an origin -/
theorem typeMarkers_are_originMarkers : ∀ m ∈ typeMarkers, (m.1, m.2.1) ∈ originMarkers := by decide

/-- classification agrees with the documentation -/
theorem isVcs_documented : ∀ t ∈ ProjectType.all, isVcs t = (docClass t == "VCS") := by decide
theorem all_complete (t : ProjectType) : t ∈ ProjectType.all := by cases t <;> decide

/-- **the statement of C20's last sentence**: every project type is exactly one of version control /
    software suite. (Before the repair of F11 the generated tables made this `false`: `Go` and `Zig`
    were in neither list; a mutant that drops a type from `is_soft` or adds it to both makes the
    `decide` below fail on the regenerated tables.) -/
def exactlyOne : Bool := ProjectType.all.all (fun t => isVcs t != isSoft t)

theorem exactlyOne_holds : exactlyOne = true := by decide

theorem classified (t : ProjectType) : isVcs t ≠ isSoft t := by
  have h := exactlyOne_holds
  unfold exactlyOne at h
  rw [List.all_eq_true] at h
  simpa using h t (all_complete t)

/-- the classification is the documented one for every type (doc comment says `VCS:` or `Soft:`) -/
theorem isSoft_documented : ∀ t ∈ ProjectType.all, isSoft t = (docClass t == "Soft") := by decide

end Wp
