import Wx.Pure.Signals
/-! C19: theorems about the signal tables (regenerated from the source on every run); kept apart from the model file. -/
namespace Wp
open Wp.Gen

/-! ### theorems (finite domains, enumerated completely) -/

def firstClass : List Signal := [.hangup, .forceStop, .interrupt, .quit, .terminate, .user1, .user2]
def validNums : List Int := nixTable.map (·.1)
/-- every signal the platform knows, in every constructor form -/
def allSignals : List Signal := firstClass ++ validNums.map Signal.custom ++ validNums.map fromNix

/-- display ∘ parse keeps the OS signal -/
theorem display_parse : ∀ s ∈ allSignals, (parse (display s)).bind toNix = toNix s := by decide +kernel

/-- first-class signals have their POSIX numbers -/
theorem posix_numbers :
    toNix .hangup = some 1 ∧ toNix .interrupt = some 2 ∧ toNix .quit = some 3 ∧ toNix .forceStop = some 9 ∧
    toNix .user1 = some 10 ∧ toNix .user2 = some 12 ∧ toNix .terminate = some 15 := by decide +kernel

/-- documented exceptions: control names win over the unix short name -/
def controlNames : List Str := windowsTable.map (·.1)

/-- the spellings of one signal, in upper, lower and capitalised form -/
def spellings (p : Int × Str) : List Str :=
  let short := p.2.drop 3
  let variants (s : Str) : List Str := [s, s.map lowerC, match s.map lowerC with | c :: r => upperC c :: r | [] => []]
  [showInt p.1] ++ variants p.2 ++ variants short

/-- number, SIG-name and short name agree in every letter case, except for the documented control names -/
theorem spellings_agree : ∀ p ∈ nixTable, ∀ sp ∈ spellings p,
    toUpper sp ∈ controlNames ∨ (parse sp).bind toNix = some p.1 := by decide +kernel

/-- the only spelling taken over by a control name is the documented `STOP` -/
theorem only_stop_is_shadowed : ∀ p ∈ nixTable, ∀ sp ∈ spellings p,
    toUpper sp ∈ controlNames → toUpper sp = ['S', 'T', 'O', 'P'] ∨ toUpper sp = ['S', 'I', 'G', 'K', 'I', 'L', 'L'] ∨ toUpper sp = ['K', 'I', 'L', 'L'] := by
  decide +kernel

/-- `From<i32>` agrees with `from_nix` on every valid number -/
theorem fromI32_fromNix : ∀ n ∈ validNums, toNix (fromI32 n) = some n ∧ toNix (fromNix n) = some n := by decide +kernel

theorem exit_codes : ∀ c ∈ List.range 256,
    fromStatus (c * 256) = if c = 0 then .success else .exitError c := by decide +kernel

theorem term_signals : ∀ g ∈ List.range 65, g ≠ 0 → ∀ core ∈ [0, 128],
    fromStatus (g + core) = .exitSignal (fromI32 g) := by decide +kernel

/-- the translator read every arm of `From<i32>`, `to_nix` and `from_nix` (an arm it cannot read would otherwise just be missing
    from the tables the theorems above quantify over) -/
theorem translator_complete : Wp.Gen.untranslated = [] := by decide

#print axioms spellings_agree
end Wp
