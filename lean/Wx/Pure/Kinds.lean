import Wx.Base.Str
/-! File event kinds (notify-types `EventKind` family) and their derived `Debug` text. -/
namespace Wp

inductive AccessMode | any | execute | read | write | other deriving DecidableEq, Repr
inductive AccessKind | any | read | open_ (m : AccessMode) | close (m : AccessMode) | other deriving DecidableEq, Repr
inductive CreateKind | any | file | folder | other deriving DecidableEq, Repr
inductive DataChange | any | size | content | other deriving DecidableEq, Repr
inductive MetadataKind | any | accessTime | writeTime | permissions | ownership | extended | other deriving DecidableEq, Repr
inductive RenameMode | any | to_ | from_ | both | other deriving DecidableEq, Repr
inductive ModifyKind | any | data (d : DataChange) | metadata (m : MetadataKind) | name (r : RenameMode) | other deriving DecidableEq, Repr
inductive RemoveKind | any | file | folder | other deriving DecidableEq, Repr
inductive EventKind | any | access (k : AccessKind) | create (k : CreateKind) | modify (k : ModifyKind) | remove (k : RemoveKind) | other
  deriving DecidableEq, Repr


def wrap (name : String) (inner : Str) : Str := name.toList ++ ['('] ++ inner ++ [')']

def AccessMode.dbg : AccessMode → Str
  | .any => "Any".toList | .execute => "Execute".toList | .read => "Read".toList | .write => "Write".toList | .other => "Other".toList
def AccessKind.dbg : AccessKind → Str
  | .any => "Any".toList | .read => "Read".toList | .open_ m => wrap "Open" m.dbg | .close m => wrap "Close" m.dbg | .other => "Other".toList
def CreateKind.dbg : CreateKind → Str
  | .any => "Any".toList | .file => "File".toList | .folder => "Folder".toList | .other => "Other".toList
def DataChange.dbg : DataChange → Str
  | .any => "Any".toList | .size => "Size".toList | .content => "Content".toList | .other => "Other".toList
def MetadataKind.dbg : MetadataKind → Str
  | .any => "Any".toList | .accessTime => "AccessTime".toList | .writeTime => "WriteTime".toList
  | .permissions => "Permissions".toList | .ownership => "Ownership".toList | .extended => "Extended".toList | .other => "Other".toList
def RenameMode.dbg : RenameMode → Str
  | .any => "Any".toList | .to_ => "To".toList | .from_ => "From".toList | .both => "Both".toList | .other => "Other".toList
def ModifyKind.dbg : ModifyKind → Str
  | .any => "Any".toList | .data d => wrap "Data" d.dbg | .metadata m => wrap "Metadata" m.dbg | .name r => wrap "Name" r.dbg | .other => "Other".toList
def RemoveKind.dbg : RemoveKind → Str
  | .any => "Any".toList | .file => "File".toList | .folder => "Folder".toList | .other => "Other".toList
def EventKind.dbg : EventKind → Str
  | .any => "Any".toList | .access k => wrap "Access" k.dbg | .create k => wrap "Create" k.dbg
  | .modify k => wrap "Modify" k.dbg | .remove k => wrap "Remove" k.dbg | .other => "Other".toList

def allModes : List AccessMode := [.any, .execute, .read, .write, .other]
def allKinds : List EventKind :=
  [.any, .other] ++
  ([AccessKind.any, .read, .other] ++ allModes.map AccessKind.open_ ++ allModes.map AccessKind.close).map EventKind.access ++
  [CreateKind.any, .file, .folder, .other].map EventKind.create ++
  ([ModifyKind.any, .other] ++ [DataChange.any, .size, .content, .other].map ModifyKind.data ++
    [MetadataKind.any, .accessTime, .writeTime, .permissions, .ownership, .extended, .other].map ModifyKind.metadata ++
    [RenameMode.any, .to_, .from_, .both, .other].map ModifyKind.name).map EventKind.modify ++
  [RemoveKind.any, .file, .folder, .other].map EventKind.remove

theorem allKinds_complete (k : EventKind) : k ∈ allKinds := by
  rcases k with _ | (_ | _ | m | m | _) | (_ | _ | _ | _) | (_ | d | m | r | _) | (_ | _ | _ | _) | _
  all_goals (try cases m) <;> (try cases d) <;> (try cases r) <;> decide

end Wp
