import Wx.Pure.C17a
/-! C17 property theorems (paths.rs / emits.rs model). -/
namespace Wp
open List

theorem prefix_of_map_some : ∀ (a b : List Str), a.map some <+: b.map some → a <+: b
  | [], _, _ => List.nil_prefix
  | x :: a, [], h => by simp at h
  | x :: a, y :: b, h => by
    simp only [List.map_cons, List.cons_prefix_cons, Option.some.injEq] at h
    obtain ⟨rfl, h⟩ := h
    exact (List.prefix_cons_inj x).2 (prefix_of_map_some a b h)

/-- the prefix order `Path::starts_with` decides -/
def P.under (c p : P) : Prop := c.cs <+: p.cs

theorem commonPrefix_some {ts : List P} {c : P} (h : commonPrefix ts = some c) :
    ∃ first rest, ts = first :: rest ∧ c.cs = foldCp first.cs rest ∧ c.cs ≠ [] := by
  cases ts with
  | nil => simp [commonPrefix] at h
  | cons first rest =>
    refine ⟨first, rest, rfl, ?_⟩
    simp only [commonPrefix] at h
    split at h
    · cases h
    · next hne =>
      injection h with h
      subst h
      have := ofCs_cs_of_prefix (foldCp_prefix_init rest first.cs)
      simp only [foldCp] at this
      unfold foldCp
      rw [this]
      exact ⟨rfl, by simpa using hne⟩

/-- COMMON is a directory prefix of every trunk … -/
theorem common_is_prefix {ts : List P} {c : P} (h : commonPrefix ts = some c) :
    ∀ t ∈ ts, c.under t := by
  obtain ⟨first, rest, rfl, hc, _⟩ := commonPrefix_some h
  intro t ht
  unfold P.under; rw [hc]
  rcases List.mem_cons.1 ht with rfl | ht
  · exact foldCp_prefix_init rest _
  · exact foldCp_prefix_mem rest _ t ht

/-- … and the longest one: any other common prefix is a prefix of it. -/
theorem common_is_longest {ts : List P} {c : P} (h : commonPrefix ts = some c)
    (d : P) (hd : ∀ t ∈ ts, d.under t) : d.under c := by
  obtain ⟨first, rest, rfl, hc, _⟩ := commonPrefix_some h
  unfold P.under; rw [hc]
  exact foldCp_glb rest _ d.cs (hd first (by simp)) (fun q hq => hd q (by simp [hq]))

/-- no COMMON only when there are no trunks or they share no component at all (not even the root) -/
theorem common_none {ts : List P} (h : commonPrefix ts = none) (hne : ts ≠ [])
    (d : P) (hd : ∀ t ∈ ts, d.under t) : d.cs = [] := by
  cases ts with
  | nil => exact absurd rfl hne
  | cons first rest =>
    simp only [commonPrefix] at h
    split at h
    · next he =>
      have := foldCp_glb rest first.cs d.cs (hd first (by simp)) (fun q hq => hd q (by simp [hq]))
      simp only [foldCp] at this
      simp only [List.isEmpty_iff] at he
      rw [he] at this
      exact List.prefix_nil.1 this
    · cases h

theorem parent_under {p q : P} (h : p.parent = some q) : q.under p := by
  unfold P.parent at h
  split at h
  · cases h
  · next x r hr =>
    injection h with h; subst h
    have : p.comps = r.reverse ++ [x] := by
      have := congrArg List.reverse hr; simpa using this
    unfold P.under P.cs
    simp only [this, List.map_append]
    cases p.abs <;> simp

theorem trunk_under (p : P) (ft : Option FT) : (trunk p ft).under p := by
  unfold trunk
  split
  · exact List.prefix_refl _
  · cases h : p.parent with
    | none => exact List.prefix_refl _
    | some q => exact parent_under h

theorem under_trans {a b c : P} (h1 : a.under b) (h2 : b.under c) : a.under c := List.IsPrefix.trans h1 h2

/-- reconstruct-by-join: under a non-empty prefix, `strip_prefix` succeeds, the entry is relative, and
`join` gives back the original path -/
theorem strip_join {c p : P} (h : c.under p) (hne : c.cs ≠ []) :
    ∃ s, c.strip p = some s ∧ s.abs = false ∧ c.join s = p := by
  rcases c with ⟨ca, cc⟩; rcases p with ⟨pa, pc⟩
  unfold P.under P.cs at h
  have key : ca = pa ∧ cc <+: pc := by
    cases ca <;> cases pa
    · simp only [Bool.false_eq_true, if_false, List.nil_append] at h
      exact ⟨rfl, prefix_of_map_some _ _ h⟩
    · simp only [Bool.false_eq_true, if_false, if_true, List.nil_append, List.singleton_append] at h
      cases cc with
      | nil => simp [P.cs] at hne
      | cons x r => simp [List.cons_prefix_cons] at h
    · simp only [Bool.false_eq_true, if_false, if_true, List.nil_append, List.singleton_append] at h
      cases pc with
      | nil => simp at h
      | cons x r => simp [List.cons_prefix_cons] at h
    · simp only [if_true, List.singleton_append, List.cons_prefix_cons, true_and] at h
      exact ⟨rfl, prefix_of_map_some _ _ h⟩
  obtain ⟨rfl, t, rfl⟩ := key
  refine ⟨⟨false, t⟩, ?_, rfl, ?_⟩
  · simp [P.strip]
  · simp [P.join]

end Wp
