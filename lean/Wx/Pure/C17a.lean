import Wx.Pure.Summary
/-! C17 helper lemmas: common prefix is the greatest lower bound in the prefix order. -/
namespace Wp
open List

def cp (a b : List (Option Str)) : List (Option Str) := b.take (commonLen a b)

theorem cp_prefix_right (a b) : cp a b <+: b := List.take_prefix _ _

theorem cp_prefix_left : ∀ a b, cp a b <+: a
  | [], b => by simp [cp, commonLen]
  | a :: as, [] => by simp [cp, commonLen]
  | a :: as, b :: bs => by
    unfold cp commonLen
    by_cases h : a = b
    · subst h; simp only [beq_self_eq_true, if_true, List.take_succ_cons]
      exact (List.prefix_cons_inj a).2 (cp_prefix_left as bs)
    · simp [h]

theorem cp_glb : ∀ d a b, d <+: a → d <+: b → d <+: cp a b
  | [], _, _, _, _ => List.nil_prefix
  | x :: d, [], _, h, _ => by simp at h
  | x :: d, _ :: _, [], _, h => by simp at h
  | x :: d, a :: as, b :: bs, h1, h2 => by
    rw [List.cons_prefix_cons] at h1 h2
    obtain ⟨rfl, h1⟩ := h1; obtain ⟨rfl, h2⟩ := h2
    unfold cp commonLen
    simp only [beq_self_eq_true, if_true, List.take_succ_cons]
    exact (List.prefix_cons_inj x).2 (cp_glb d as bs h1 h2)

def foldCp (init : List (Option Str)) (rest : List P) : List (Option Str) :=
  rest.foldl (fun acc p => acc.take (commonLen p.cs acc)) init

theorem foldCp_prefix_init : ∀ rest init, foldCp init rest <+: init
  | [], init => by simp [foldCp]
  | p :: rest, init => by
    simp only [foldCp, List.foldl_cons]
    exact (foldCp_prefix_init rest _).trans (cp_prefix_right p.cs init)

theorem foldCp_prefix_mem : ∀ rest init q, q ∈ rest → foldCp init rest <+: q.cs
  | p :: rest, init, q, h => by
    simp only [foldCp, List.foldl_cons]
    rcases List.mem_cons.1 h with rfl | h
    · exact (foldCp_prefix_init rest _).trans (cp_prefix_left q.cs init)
    · exact foldCp_prefix_mem rest _ q h

theorem foldCp_glb : ∀ rest init d, d <+: init → (∀ q ∈ rest, d <+: q.cs) → d <+: foldCp init rest
  | [], init, d, h, _ => by simpa [foldCp] using h
  | p :: rest, init, d, h, hr => by
    simp only [foldCp, List.foldl_cons]
    exact foldCp_glb rest _ d (cp_glb d p.cs init (hr p (by simp)) h) (fun q hq => hr q (by simp [hq]))

theorem filterMap_id_map_some (l : List Str) : (l.map some).filterMap id = l := by
  induction l <;> simp_all

theorem prefix_map_some {l : List (Option Str)} {c : List Str} (h : l <+: c.map some) :
    ∃ k, l = (c.take k).map some := by
  obtain ⟨t, ht⟩ := h
  refine ⟨l.length, ?_⟩
  have : (c.map some).take l.length = l := by rw [← ht]; simp
  conv => lhs; rw [← this]
  rw [List.map_take]

/-- a prefix of a component list is itself the component list of the path `ofCs` builds from it -/
theorem ofCs_cs_of_prefix {l : List (Option Str)} {p : P} (h : l <+: p.cs) : (ofCs l).cs = l := by
  rcases p with ⟨abs, comps⟩
  cases abs
  · simp only [P.cs, Bool.false_eq_true, if_false, List.nil_append] at h
    obtain ⟨k, rfl⟩ := prefix_map_some h
    cases hc : comps.take k with
    | nil => simp [ofCs, P.cs]
    | cons x r => simp [ofCs, P.cs]
  · simp only [P.cs, if_true, List.singleton_append] at h
    cases l with
    | nil => simp [ofCs, P.cs]
    | cons x l =>
      rw [List.cons_prefix_cons] at h
      obtain ⟨rfl, h⟩ := h
      obtain ⟨k, rfl⟩ := prefix_map_some h
      simp [ofCs, P.cs, ← List.map_take, filterMap_id_map_some]

theorem ofCs_cs (p : P) : ofCs p.cs = p := by
  rcases p with ⟨abs, comps⟩
  cases abs
  · cases comps <;> simp [ofCs, P.cs, filterMap_id_map_some]
  · simp [ofCs, P.cs, filterMap_id_map_some]

theorem cs_inj {p q : P} (h : p.cs = q.cs) : p = q := by rw [← ofCs_cs p, ← ofCs_cs q, h]

end Wp
