import Wx.Pure.Origins
import Wx.Pure.Gen.Origins
/-! C20: theorems about the origin / type tables (regenerated from the source on every run) and the functions over them.
    Kept apart from `Wx.Pure.Origins` so that the model driver builds whatever the tables say. -/
namespace Wp
open Wp.Gen

/-- the code's `check_list`, `origins()`, `types()`: the same functions over the REGENERATED tables -/
def isOrigin (l : Listing) : Bool := isOriginWith originMarkers l
def origins (chain : List (String × Listing)) : List String := originsWith originMarkers chain
def types (l : Listing) : List ProjectType := typesWith typeMarkers l

/-! ### theorems -/

/-- exactly the marked members of the chain, in order, nothing else — any chain length -/
theorem origins_exact (chain : List (String × Listing)) (d : String) :
    d ∈ origins chain ↔ ∃ l, (d, l) ∈ chain ∧ l ≠ [] ∧ ∃ m ∈ originMarkers, present l m = true := by
  unfold origins originsWith isOriginWith
  simp only [List.mem_map, List.mem_filter, Bool.and_eq_true, Bool.not_eq_true', List.isEmpty_eq_false_iff,
    List.any_eq_true]
  constructor
  · rintro ⟨⟨d', l⟩, ⟨hm, hne, hmk⟩, rfl⟩; exact ⟨l, hm, hne, hmk⟩
  · rintro ⟨l, hm, hne, hmk⟩; exact ⟨(d, l), ⟨hm, hne, hmk⟩, rfl⟩

theorem origins_sublist (chain : List (String × Listing)) : (origins chain).Sublist (chain.map (·.1)) := by
  unfold origins originsWith
  exact List.Sublist.map _ List.filter_sublist

/-- the reported types are exactly those with a marker of the right node type present -/
theorem types_exact (l : Listing) (t : ProjectType) :
    t ∈ types l ↔ ∃ name isDir, (name, isDir, t) ∈ typeMarkers ∧ present l (name, isDir) = true := by
  unfold types typesWith
  simp only [List.mem_map, List.mem_filter]
  constructor
  · rintro ⟨⟨n, d, t'⟩, ⟨hm, hp⟩, rfl⟩; exact ⟨n, d, hm, hp⟩
  · rintro ⟨n, d, hm, hp⟩; exact ⟨(n, d, t), ⟨hm, hp⟩, rfl⟩

/-- a directory called like a file marker is not a marker -/
example : types [("Cargo.toml", .dir)] = [] := by decide
example : types [("Cargo.toml", .file), (".git", .dir)] = [.git, .cargo] := by decide

/-- the documented table (transcribed by hand from the rustdoc of `ProjectType`) -/
def documented : List (String × Bool × ProjectType) := [
  (".bzr", true, .bazaar), (".bzrignore", false, .bazaar),
  ("_darcs", true, .darcs),
  (".fossil-settings", true, .fossil),
  (".git", true, .git), (".git", false, .git), (".gitattributes", false, .git), (".gitmodules", false, .git),
  (".hg", true, .mercurial), (".hgignore", false, .mercurial), (".hgtags", false, .mercurial),
  (".svn", true, .subversion),
  ("Gemfile", false, .bundler),
  (".ctags", false, .c),
  ("Cargo.toml", false, .cargo),
  ("Dockerfile", false, .docker),
  ("mix.exs", false, .elixir),
  ("go.mod", false, .go), ("go.sum", false, .go),
  ("build.gradle", false, .gradle),
  ("package.json", false, .javaScript), ("cgmanifest.json", false, .javaScript),
  ("project.clj", false, .leiningen),
  ("pom.xml", false, .maven),
  (".perltidyrc", false, .perl), ("Makefile.PL", false, .perl),
  ("composer.json", false, .pHP),
  ("requirements.txt", false, .pip), ("Pipfile", false, .pip),
  ("v.mod", false, .v),
  ("build.zig", false, .zig)]

/-- the code's table and the documented one have the same rows -/
theorem typeMarkers_documented :
    (∀ m ∈ typeMarkers, m ∈ documented) ∧ (∀ m ∈ documented, m ∈ typeMarkers) := by decide

/-- name of a project type as the harness prints it (kernel-evaluable) -/
def ptNameK : ProjectType → String
  | .bazaar => "bazaar"
  | .bundler => "bundler"
  | .c => "c"
  | .cargo => "cargo"
  | .darcs => "darcs"
  | .docker => "docker"
  | .elixir => "elixir"
  | .fossil => "fossil"
  | .git => "git"
  | .go => "go"
  | .gradle => "gradle"
  | .javaScript => "javaScript"
  | .leiningen => "leiningen"
  | .maven => "maven"
  | .mercurial => "mercurial"
  | .pHP => "pHP"
  | .perl => "perl"
  | .pijul => "pijul"
  | .pip => "pip"
  | .subversion => "subversion"
  | .v => "v"
  | .zig => "zig"

/-- the string table the driver uses is the typed documented one -/
theorem documentedS_typed : documentedS = documented.map (fun m => (m.1, m.2.1, ptNameK m.2.2)) := by decide

/-- the code's marker list is the recognised one -/
theorem originMarkers_recognised : originMarkers = recognised := by decide

/-- the translator read every marker probe of `origins()` and `types()`: no probe through a helper it does not know, none with a
    non-literal name (such a probe would otherwise just be missing from the tables above) -/
theorem origins_translator_complete : untranslatedOrigins = [] := by decide

/-- every type marker also makes the directory an origin -/
theorem typeMarkers_are_originMarkers : ∀ m ∈ typeMarkers, (m.1, m.2.1) ∈ originMarkers := by decide

/-- classification agrees with the documentation -/
theorem isVcs_documented : ∀ t ∈ ProjectType.all, isVcs t = (docClass t == "VCS") := by decide
theorem all_complete (t : ProjectType) : t ∈ ProjectType.all := by cases t <;> decide

/-- **the statement of C20's last sentence**: every project type is exactly one of version control /
    software suite. (Before the repair of F11 the generated tables made this `false`: `Go` and `Zig`
    were in neither list; a mutant that drops a type from `is_soft` or adds it to both makes the
    `decide` below fail on the regenerated tables.) -/
def exactlyOne : Bool := ProjectType.all.all (fun t => isVcs t != isSoft t)

theorem exactlyOne_holds : exactlyOne = true := by decide

theorem classified (t : ProjectType) : isVcs t ≠ isSoft t := by
  have h := exactlyOne_holds
  unfold exactlyOne at h
  rw [List.all_eq_true] at h
  simpa using h t (all_complete t)

/-- the classification is the documented one for every type (doc comment says `VCS:` or `Soft:`) -/
theorem isSoft_documented : ∀ t ∈ ProjectType.all, isSoft t = (docClass t == "Soft") := by decide

/-- hence the code's `origins()` is the specified one, on every chain -/
theorem origins_eq_doc (chain : List (String × Listing)) : origins chain = originsDoc chain := by
  unfold origins originsDoc; rw [originMarkers_recognised]

/-- and the code's `types()` reports exactly the specified type names, on every listing -/
theorem types_eq_doc (l : Listing) (n : String) : n ∈ typesDoc l ↔ ∃ t ∈ types l, ptNameK t = n := by
  unfold typesDoc types typesWith
  rw [documentedS_typed]
  simp only [List.mem_map, List.mem_filter]
  constructor
  · rintro ⟨⟨a, b, c⟩, ⟨hm, hp⟩, rfl⟩
    obtain ⟨⟨a', b', t⟩, hmem, heq⟩ := hm
    simp only [Prod.mk.injEq] at heq
    obtain ⟨rfl, rfl, rfl⟩ := heq
    exact ⟨t, ⟨(a', b', t), ⟨typeMarkers_documented.2 _ hmem, hp⟩, rfl⟩, rfl⟩
  · rintro ⟨t, ⟨⟨a, b, t'⟩, ⟨hm, hp⟩, rfl⟩, rfl⟩
    exact ⟨(a, b, ptNameK t'), ⟨⟨(a, b, t'), typeMarkers_documented.1 _ hm, rfl⟩, hp⟩, rfl⟩

end Wp
