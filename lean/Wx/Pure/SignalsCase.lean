import Wx.Pure.Signals
/-! C19: parsing a signal is case-insensitive — for EVERY input string, not only for sampled spellings. -/
namespace Wp
open Wp.Gen

theorem upperC_digit (c : Char) : (upperC c).isDigit = c.isDigit := by
  unfold upperC; split <;> first | rfl | decide

theorem upperC_of_digit (c : Char) (h : c.isDigit = true) : upperC c = c := by
  unfold upperC; split <;> first | rfl | (exfalso; revert h; decide)

def upperLetters : List Char := "ABCDEFGHIJKLMNOPQRSTUVWXYZ".toList

theorem upperC_range (c : Char) : upperC c = c ∨ upperC c ∈ upperLetters := by
  unfold upperC; split <;> first | (right; decide) | (left; rfl)

theorem upperC_fix_upper : ∀ u ∈ upperLetters, upperC u = u := by decide

theorem upperC_idem (c : Char) : upperC (upperC c) = upperC c := by
  rcases upperC_range c with h | h
  · rw [h]; exact h
  · exact upperC_fix_upper _ h

theorem upperC_minus (c : Char) : upperC c = '-' ↔ c = '-' := by
  unfold upperC; split <;> first | decide | exact Iff.rfl

theorem upperC_plus (c : Char) : upperC c = '+' ↔ c = '+' := by
  unfold upperC; split <;> first | decide | exact Iff.rfl

theorem toUpper_idem (s : Str) : toUpper (toUpper s) = toUpper s := by
  unfold toUpper; simp [List.map_map, Function.comp_def, upperC_idem]

theorem toUpper_all_digit (r : Str) : (toUpper r).all Char.isDigit = r.all Char.isDigit := by
  unfold toUpper; induction r with
  | nil => rfl
  | cons c r ih => simp [List.all_cons, upperC_digit, ih]

theorem toUpper_of_digits (r : Str) (h : r.all Char.isDigit = true) : toUpper r = r := by
  unfold toUpper; induction r with
  | nil => rfl
  | cons c r ih =>
    simp only [List.all_cons, Bool.and_eq_true] at h
    simp [List.map_cons, upperC_of_digit c h.1, ih h.2]

/-- the digits part: upper-casing changes nothing that `i32::from_str` looks at -/
theorem digitsVal_toUpper (r : Str) :
    (if (toUpper r).isEmpty || !(toUpper r).all Char.isDigit then (none : Option Nat) else some ((toUpper r).foldl (fun (acc : Nat) c => acc * 10 + (c.toNat - 48)) 0)) =
    (if r.isEmpty || !r.all Char.isDigit then none else some (r.foldl (fun (acc : Nat) c => acc * 10 + (c.toNat - 48)) 0)) := by
  have he : (toUpper r).isEmpty = r.isEmpty := by unfold toUpper; cases r <;> rfl
  rw [he, toUpper_all_digit]
  by_cases hd : r.all Char.isDigit = true
  · rw [toUpper_of_digits r hd]
  · simp [hd]

theorem parseInt_toUpper (s : Str) : parseInt (toUpper s) = parseInt s := by
  cases s with
  | nil => rfl
  | cons c r =>
    have hm := upperC_minus c
    have hp := upperC_plus c
    by_cases h1 : c = '-'
    · subst h1
      have : toUpper ('-' :: r) = '-' :: toUpper r := by simp [toUpper, upperC]
      rw [this]
      have key := digitsVal_toUpper r
      simp only [parseInt]
      by_cases hx : (toUpper r).isEmpty || !(toUpper r).all Char.isDigit
      · have hy : r.isEmpty || !r.all Char.isDigit := by
          have he : (toUpper r).isEmpty = r.isEmpty := by unfold toUpper; cases r <;> rfl
          rw [he, toUpper_all_digit] at hx; exact hx
        simp [hx, hy]
      · have hy : ¬ (r.isEmpty || !r.all Char.isDigit) := by
          have he : (toUpper r).isEmpty = r.isEmpty := by unfold toUpper; cases r <;> rfl
          rw [he, toUpper_all_digit] at hx; exact hx
        have hd : r.all Char.isDigit = true := by simpa using (by simpa using hy : ¬ r.isEmpty = true ∧ ¬ (!r.all Char.isDigit) = true).2
        simp [hx, hy, toUpper_of_digits r hd]
    · by_cases h2 : c = '+'
      · subst h2
        have : toUpper ('+' :: r) = '+' :: toUpper r := by simp [toUpper, upperC]
        rw [this]
        simp only [parseInt]
        by_cases hx : (toUpper r).isEmpty || !(toUpper r).all Char.isDigit
        · have hy : r.isEmpty || !r.all Char.isDigit := by
            have he : (toUpper r).isEmpty = r.isEmpty := by unfold toUpper; cases r <;> rfl
            rw [he, toUpper_all_digit] at hx; exact hx
          simp [hx, hy]
        · have hy : ¬ (r.isEmpty || !r.all Char.isDigit) := by
            have he : (toUpper r).isEmpty = r.isEmpty := by unfold toUpper; cases r <;> rfl
            rw [he, toUpper_all_digit] at hx; exact hx
          have hd : r.all Char.isDigit = true := by simpa using (by simpa using hy : ¬ r.isEmpty = true ∧ ¬ (!r.all Char.isDigit) = true).2
          simp [hx, hy, toUpper_of_digits r hd]
      · -- no sign: the whole string is the digits part
        have hu1 : upperC c ≠ '-' := fun h => h1 (hm.1 h)
        have hu2 : upperC c ≠ '+' := fun h => h2 (hp.1 h)
        have hcons : toUpper (c :: r) = upperC c :: toUpper r := rfl
        have hl : parseInt (c :: r) = (if (c :: r).isEmpty || !(c :: r).all Char.isDigit then none else
            some (((c :: r).foldl (fun (acc : Nat) ch => acc * 10 + (ch.toNat - 48)) 0 : Nat) : Int)) := by
          unfold parseInt; split <;> simp_all
        have hr : parseInt (upperC c :: toUpper r) = (if (upperC c :: toUpper r).isEmpty || !(upperC c :: toUpper r).all Char.isDigit then none else
            some (((upperC c :: toUpper r).foldl (fun (acc : Nat) ch => acc * 10 + (ch.toNat - 48)) 0 : Nat) : Int)) := by
          unfold parseInt; split <;> simp_all
        rw [hcons, hl, hr, ← hcons]
        have key := digitsVal_toUpper (c :: r)
        by_cases hd : (c :: r).all Char.isDigit = true
        · rw [toUpper_of_digits _ hd]
        · have hd' : (toUpper (c :: r)).all Char.isDigit = false := by rw [toUpper_all_digit]; simpa using hd
          have hd2 : (c :: r).all Char.isDigit = false := by simpa using hd
          simp [hd', hd2]

/-- **case-insensitive for every string**: parsing looks at the input only through its upper-cased form -/
theorem parse_toUpper (s : Str) : parse (toUpper s) = parse s := by
  unfold parse fromWindowsStr fromUnixStr
  simp only [toUpper_idem, parseInt_toUpper]

theorem parse_case_insensitive (s s' : Str) (h : toUpper s = toUpper s') : parse s = parse s' := by
  rw [← parse_toUpper s, ← parse_toUpper s', h]

#print axioms parse_case_insensitive
end Wp
