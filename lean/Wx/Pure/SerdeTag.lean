import Wx.Pure.C16
import Wx.Pure.Gen.Signals
/-! C16: `Tag` ⇄ `SerdeTag` (serde_formats.rs), round trip and totality. -/
namespace Wp
open Wp.Gen

inductive FileType | file | dir | symlink | other deriving DecidableEq, Repr
inductive Source | filesystem | keyboard | mouse | os | time | internal deriving DecidableEq, Repr
inductive Keyboard | eof deriving DecidableEq, Repr

/-- `ProcessEnd`; the payloads are NonZero in Rust (see `Tag.wf`) -/
inductive PEnd | success | exitError (c : Int) | exitSignal (s : Signal) | exitStop (c : Int) | exception (c : Int) | continued
  deriving DecidableEq, Repr

inductive Tag
  | path (p : Str) (ft : Option FileType)
  | fek (k : EventKind)
  | source (s : Source)
  | keyboard (k : Keyboard)
  | process (pid : Nat)
  | signal (s : Signal)
  | completion (e : Option PEnd)
  | unknown
  deriving DecidableEq, Repr

inductive TagKind | none | path | fs | source | keyboard | process | signal | completion deriving DecidableEq, Repr
inductive Disp | unknown | success | error | signal | stop | exception | continued deriving DecidableEq, Repr
inductive FsSimple | access | create | modify | remove | other deriving DecidableEq, Repr

structure SerdeTag where
  kind : TagKind := .none
  absolute : Option Str := none
  filetype : Option FileType := none
  simple : Option FsSimple := none
  full : Option Str := none
  source : Option Source := none
  keycode : Option Keyboard := none
  pid : Option Nat := none
  signal : Option Signal := none
  disposition : Option Disp := none
  code : Option Int := none
  deriving DecidableEq, Repr

def simpleOf : EventKind → FsSimple
  | .access _ => .access | .create _ => .create | .modify _ => .modify | .remove _ => .remove | _ => .other

/-- `From<Tag> for SerdeTag` -/
def encode : Tag → SerdeTag
  | .path p ft => { kind := .path, absolute := some p, filetype := ft }
  | .fek k => { kind := .fs, full := some k.dbg, simple := some (simpleOf k) }
  | .source s => { kind := .source, source := some s }
  | .keyboard k => { kind := .keyboard, keycode := some k }
  | .process pid => { kind := .process, pid := some pid }
  | .signal s => { kind := .signal, signal := some s }
  | .completion none => { kind := .completion, disposition := some .unknown }
  | .completion (some e) =>
    { kind := .completion,
      code := match e with | .exitError c => some c | .exitStop c => some c | .exception c => some c | _ => none,
      signal := match e with | .exitSignal s => some s | _ => none,
      disposition := some (match e with
        | .success => .success | .exitError _ => .error | .exitSignal _ => .signal | .exitStop _ => .stop
        | .exception _ => .exception | .continued => .continued) }
  | .unknown => {}

def inI32 (c : Int) : Bool := -2147483648 ≤ c && c ≤ 2147483647

/-- `From<SerdeTag> for Tag`: the arms grouped by `kind` (they are tried in source order; within one
    kind the only overlapping arms are `fs` with `full` before `fs` with `simple`) -/
def decode (v : SerdeTag) : Tag :=
  match v.kind with
  | .none => .unknown
  | .path => match v.absolute with | some p => .path p v.filetype | none => .unknown
  | .fs =>
    match v.full with
    | some full => .fek (decodeKind full)
    | none => match v.simple with
      | some .access => .fek (.access .any)
      | some .create => .fek (.create .any)
      | some .modify => .fek (.modify .any)
      | some .remove => .fek (.remove .any)
      | some .other => .fek .other
      | none => .unknown
  | .source => match v.source with | some s => .source s | none => .unknown
  | .keyboard => match v.keycode with | some k => .keyboard k | none => .unknown
  | .process => match v.pid with | some p => .process p | none => .unknown
  | .signal => match v.signal with | some s => .signal s | none => .unknown
  | .completion =>
    match v.disposition with
    | none => .completion none
    | some .unknown => .completion none
    | some .success => .completion (some .success)
    | some .continued => .completion (some .continued)
    | some .signal => match v.signal with | some s => .completion (some (.exitSignal s)) | none => .unknown
    | some .error => match v.code with
      | some c => if c ≠ 0 then .completion (some (.exitError c)) else .unknown
      | none => .unknown
    | some .stop => match v.code with
      | some c => if c ≠ 0 ∧ inI32 c = true then .completion (some (.exitStop c)) else .unknown
      | none => .unknown
    | some .exception => match v.code with
      | some c => if c ≠ 0 ∧ inI32 c = true then .completion (some (.exception c)) else .unknown
      | none => .unknown

end Wp
