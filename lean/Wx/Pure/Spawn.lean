import Wx.Pure.Summary
/-! C18: supervisor/src/command/conversions.rs `to_spawnable` (unix) and cli/src/config.rs `interpret_command_args`. -/
namespace Wp

structure Shell where
  prog : Str
  options : List Str
  programOption : Option Str
  deriving DecidableEq, Repr

inductive Program
  | exec (prog : Str) (args : List Str)
  | shell (sh : Shell) (command : Str) (args : List Str)
  deriving DecidableEq, Repr

structure SpawnOptions where
  grouped : Bool
  session : Bool
  resetSigmask : Bool
  deriving DecidableEq, Repr

inductive Wrapper | killOnDrop | processSession | processGroupLeader | resetSigmask
  deriving DecidableEq, Repr

/-- argv[0..] handed to the OS -/
def argv : Program → List Str
  | .exec prog args => prog :: args
  | .shell sh command args => sh.prog :: (sh.options ++ sh.programOption.toList ++ [command] ++ args)

def wrappers (o : SpawnOptions) : List Wrapper :=
  [.killOnDrop] ++ (if o.session then [.processSession] else if o.grouped then [.processGroupLeader] else [])
    ++ (if o.resetSigmask then [.resetSigmask] else [])

/-! CLI -/
def isAsciiWs (c : Char) : Bool := c = ' ' || c = '\t' || c = '\n' || c = '\x0c' || c = '\r'

/-- `str::split_ascii_whitespace` -/
def splitWs : Str → Str → List Str
  | cur, [] => if cur.isEmpty then [] else [cur.reverse]
  | cur, c :: r => if isAsciiWs c then (if cur.isEmpty then splitWs [] r else cur.reverse :: splitWs [] r) else splitWs (c :: cur) r

inductive WrapMode | group | session | none deriving DecidableEq, Repr

structure CliCmd where
  program : List Str          -- trailing args, non-empty (clap)
  noShell : Bool
  shell : Option Str          -- --shell
  envShell : Option Str       -- $SHELL
  wrap : WrapMode

inductive CliErr | emptyShell deriving DecidableEq, Repr

def joinSp (l : List Str) : Str := (l.intersperse [' ']).flatten

def optsOf (a : CliCmd) : SpawnOptions := { grouped := a.wrap == .group, session := a.wrap == .session, resetSigmask := false }

def interpret (a : CliCmd) : Except CliErr (Program × SpawnOptions) :=
  let opts := optsOf a
  let exec : Except CliErr (Program × SpawnOptions) :=
    match a.program with
    | [] => .ok (.exec [] [], opts)   -- unreachable: clap requires a command
    | p :: r => .ok (.exec p r, opts)
  if a.noShell then exec else
  let sh : Str := ((a.shell.orElse (fun _ => a.envShell)).getD "sh".toList)
  if sh.isEmpty then .error .emptyShell
  else if sh = "none".toList then exec
  else match splitWs [] sh with
    | [] => .error .emptyShell   -- real code panics here (whitespace-only shell); see DESIGN observations
    | sp :: so => .ok (.shell { prog := sp, options := so, programOption := some "-c".toList } (joinSp a.program) [], opts)

end Wp
