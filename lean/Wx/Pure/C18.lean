import Wx.Pure.Spawn
namespace Wp

/-- no shell: program and every argument, unchanged, nothing else -/
theorem argv_exec (p : Str) (a : List Str) : argv (.exec p a) = p :: a := rfl

/-- shell: the shell, its options, the program option, the command string, then the extra arguments -/
theorem argv_shell (sh : Shell) (c : Str) (a : List Str) :
    argv (.shell sh c a) = [sh.prog] ++ sh.options ++ sh.programOption.toList ++ [c] ++ a := by
  simp [argv]

theorem wrappers_session (o : SpawnOptions) (h : o.session = true) :
    wrappers o = [.killOnDrop, .processSession] ++ (if o.resetSigmask then [.resetSigmask] else []) := by
  simp [wrappers, h]

theorem wrappers_grouped (o : SpawnOptions) (h : o.session = false) (g : o.grouped = true) :
    wrappers o = [.killOnDrop, .processGroupLeader] ++ (if o.resetSigmask then [.resetSigmask] else []) := by
  simp [wrappers, h, g]

theorem wrappers_plain (o : SpawnOptions) (h : o.session = false) (g : o.grouped = false) :
    wrappers o = [.killOnDrop] ++ (if o.resetSigmask then [.resetSigmask] else []) := by
  simp [wrappers, h, g]

/-- CLI `-n` / `--shell=none`: the trailing arguments are the argv, byte for byte -/
theorem interpret_noshell (a : CliCmd) (p : Str) (r : List Str) (hp : a.program = p :: r)
    (h : a.noShell = true ∨ (a.shell.orElse (fun _ => a.envShell)) = some "none".toList) :
    interpret a = .ok (.exec p r, optsOf a) ∧ argv (.exec p r) = a.program := by
  rcases h with h | h
  · exact ⟨by simp [interpret, h, hp], by simp [argv, hp]⟩
  · by_cases hn : a.noShell = true
    · exact ⟨by simp [interpret, hn, hp], by simp [argv, hp]⟩
    · refine ⟨?_, by simp [argv, hp]⟩
      simp only [interpret, hn, h, hp]
      simp

theorem splitWs_clean : ∀ (s cur : Str), (∀ c ∈ cur, isAsciiWs c = false) →
    ∀ w ∈ splitWs cur s, w ≠ [] ∧ ∀ c ∈ w, isAsciiWs c = false
  | [], cur, hc, w, hw => by
    unfold splitWs at hw
    split at hw
    · cases hw
    · next hne =>
      simp only [List.mem_singleton] at hw; subst hw
      exact ⟨by simpa using hne, fun c h => hc c (List.mem_reverse.1 h)⟩
  | c :: r, cur, hc, w, hw => by
    unfold splitWs at hw
    split at hw
    · split at hw
      · exact splitWs_clean r [] (by simp) w hw
      · next hne =>
        rcases List.mem_cons.1 hw with rfl | hw
        · exact ⟨by simpa using hne, fun c h => hc c (List.mem_reverse.1 h)⟩
        · exact splitWs_clean r [] (by simp) w hw
    · next hws =>
      refine splitWs_clean r (c :: cur) ?_ w hw
      intro d hd
      rcases List.mem_cons.1 hd with rfl | hd
      · simpa using hws
      · exact hc d hd

/-- the words, concatenated, are the shell string with its whitespace removed: nothing is lost or invented -/
theorem splitWs_flatten : ∀ (s cur : Str), (∀ c ∈ cur, isAsciiWs c = false) →
    (splitWs cur s).flatten = cur.reverse ++ s.filter (fun c => !isAsciiWs c)
  | [], cur, _ => by
    unfold splitWs; split
    · next h => simp [List.isEmpty_iff.1 h]
    · simp
  | c :: r, cur, hc => by
    unfold splitWs
    split
    · next hws =>
      split
      · next h => simp [List.isEmpty_iff.1 h, splitWs_flatten r [] (by simp), hws]
      · simp [splitWs_flatten r [] (by simp), hws]
    · next hws =>
      have : ∀ d ∈ c :: cur, isAsciiWs d = false := by
        intro d hd
        rcases List.mem_cons.1 hd with rfl | hd
        · simpa using hws
        · exact hc d hd
      simp [splitWs_flatten r (c :: cur) this, hws]

/-- CLI with a shell: shell words, `-c`, the trailing arguments joined by single spaces, in that order -/
theorem interpret_shell (a : CliCmd) (sh : Str) (hn : a.noShell = false)
    (hs : (a.shell.orElse (fun _ => a.envShell)).getD "sh".toList = sh)
    (h1 : sh ≠ "none".toList) (w : Str) (ws : List Str) (hw : splitWs [] sh = w :: ws) :
    interpret a = .ok (.shell ⟨w, ws, some "-c".toList⟩ (joinSp a.program) [], optsOf a) ∧
      argv (.shell ⟨w, ws, some "-c".toList⟩ (joinSp a.program) []) = (w :: ws) ++ ["-c".toList, joinSp a.program] := by
  have hne : sh.isEmpty = false := by
    cases sh with
    | nil => simp [splitWs] at hw
    | cons _ _ => rfl
  refine ⟨?_, by simp [argv]⟩
  simp only [interpret, hn, hs, hne, hw, h1]
  simp

end Wp
