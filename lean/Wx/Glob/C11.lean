/-! C11 spike: the globset filterer's decision, parametric in the glob matcher and the ignore-file layer. -/
namespace Sp.C11

inductive V | none | ignore | whitelist deriving DecidableEq, Repr

structure G where
  id : Nat          -- stands for the compiled glob
  neg : Bool        -- `!pattern`
  deriving DecidableEq, Repr

structure PTag where
  path : List Char
  isDir : Bool
  deriving DecidableEq, Repr

/-- everything the decision reads besides the pattern lists -/
structure Env where
  mt : G → PTag → Bool                 -- glob (incl. its only-dir rule) matches the stripped path
  mtRebased : G → PTag → Bool          -- the 1.x `origin//rel` re-match
  inOrigin : PTag → Bool
  whitelisted : PTag → Bool            -- names an explicitly watched file
  igfPass : List PTag → Bool           -- ignore-files layer (C03 model)
  ext : PTag → Option (List Char)      -- Path::extension

/-- `Gitignore::matched`: the last matching glob decides -/
def verdict (mt : G → PTag → Bool) : List G → PTag → V
  | [], _ => .none
  | g :: r, p =>
    match verdict mt r p with
    | .none => if mt g p then (if g.neg then .whitelist else .ignore) else .none
    | v => v

structure Cfg where
  filters : List G
  ignores : List G
  exts : List (List Char)

def numFilters (c : Cfg) : Nat := (c.filters.filter (!·.neg)).length

/-- what a non-ignored path needs -/
def wanted (e : Env) (c : Cfg) (p : PTag) : Bool :=
  let viaFilter := numFilters c > 0 &&
    (verdict e.mt c.filters p == .ignore || (e.inOrigin p && verdict e.mtRebased c.filters p == .ignore))
  if viaFilter then true else
  let filtered := numFilters c > 0 || !c.exts.isEmpty
  if !c.exts.isEmpty then
    if p.isDir then false else
    match e.ext p with
    | some x => if c.exts.contains x then true else !filtered
    | none => false
  else !filtered

def checkEvent (e : Env) (c : Cfg) (paths : List PTag) : Bool :=
  if paths.any e.whitelisted then true else
  if !e.igfPass paths then false else
  if paths.isEmpty then true else
  paths.any (fun p => if verdict e.mt c.ignores p == .ignore then false else wanted e c p)

/-! ### the documented rule -/

theorem no_paths_pass (e : Env) (c : Cfg) (h : e.igfPass [] = true) : checkEvent e c [] = true := by
  simp [checkEvent, h]

theorem whitelisted_pass (e : Env) (c : Cfg) (ps : List PTag) (p : PTag) (hp : p ∈ ps) (hw : e.whitelisted p = true) :
    checkEvent e c ps = true := by
  have : ps.any e.whitelisted = true := List.any_eq_true.2 ⟨p, hp, hw⟩
  simp [checkEvent, this]

theorem igf_rejects (e : Env) (c : Cfg) (ps : List PTag) (hw : ps.any e.whitelisted = false) (hi : e.igfPass ps = false) :
    checkEvent e c ps = false := by
  simp [checkEvent, hw, hi]

/-- the rule itself -/
theorem check_iff (e : Env) (c : Cfg) (ps : List PTag) (hw : ps.any e.whitelisted = false) (hi : e.igfPass ps = true)
    (hne : ps ≠ []) :
    checkEvent e c ps = true ↔ ∃ p ∈ ps, verdict e.mt c.ignores p ≠ .ignore ∧ wanted e c p = true := by
  have hne' : ps.isEmpty = false := by cases ps <;> simp_all
  simp only [checkEvent, hw, hi, hne', Bool.false_eq_true, if_false, Bool.not_true, List.any_eq_true]
  constructor
  · rintro ⟨p, hp, h⟩
    refine ⟨p, hp, ?_⟩
    by_cases hv : verdict e.mt c.ignores p = .ignore
    · simp [hv] at h
    · exact ⟨hv, by simpa [hv] using h⟩
  · rintro ⟨p, hp, hv, hwant⟩
    exact ⟨p, hp, by simp [hv, hwant]⟩

/-- what `wanted` means when nothing is configured, and otherwise -/
theorem wanted_empty (e : Env) (c : Cfg) (p : PTag) (hf : numFilters c = 0) (hx : c.exts = []) : wanted e c p = true := by
  simp [wanted, hf, hx]

theorem wanted_iff (e : Env) (c : Cfg) (p : PTag) (h : numFilters c > 0 ∨ c.exts ≠ []) :
    wanted e c p = true ↔
      (numFilters c > 0 ∧ (verdict e.mt c.filters p = .ignore ∨ (e.inOrigin p = true ∧ verdict e.mtRebased c.filters p = .ignore))) ∨
      (p.isDir = false ∧ ∃ x, e.ext p = some x ∧ x ∈ c.exts) := by
  unfold wanted
  by_cases hf : numFilters c > 0
  · by_cases hm : (verdict e.mt c.filters p = .ignore ∨ (e.inOrigin p = true ∧ verdict e.mtRebased c.filters p = .ignore))
    · have : (verdict e.mt c.filters p == V.ignore || e.inOrigin p && verdict e.mtRebased c.filters p == V.ignore) = true := by
        rcases hm with h | ⟨h1, h2⟩ <;> simp [h, *]
      simp [hf, this, hm]
    · have : (verdict e.mt c.filters p == V.ignore || e.inOrigin p && verdict e.mtRebased c.filters p == V.ignore) = false := by
        simp only [not_or, not_and] at hm
        cases h1 : e.inOrigin p <;> simp_all
      simp only [hf, this, decide_true, Bool.and_false, Bool.false_eq_true, if_false, Bool.true_or, Bool.not_true]
      cases hx : c.exts with
      | nil => simp [hm]
      | cons a r =>
        cases hd : p.isDir <;> cases hext : e.ext p <;> simp_all
  · have hf0 : numFilters c = 0 := Nat.eq_zero_of_not_pos hf
    have hx : c.exts ≠ [] := by rcases h with h | h; exact absurd h hf; exact h
    cases hxe : c.exts with
    | nil => exact absurd hxe hx
    | cons a r =>
      cases hd : p.isDir <;> cases hext : e.ext p <;> simp_all

/-! ### precedence and monotonicity -/

/-- an ignored path is never rescued by a filter or an extension -/
theorem ignore_precedence (e : Env) (c : Cfg) (ps : List PTag) (hw : ps.any e.whitelisted = false)
    (hall : ∀ p ∈ ps, verdict e.mt c.ignores p = .ignore) (hne : ps ≠ []) : checkEvent e c ps = false := by
  have hne' : ps.isEmpty = false := by cases ps <;> simp_all
  simp only [checkEvent, hw, hne', Bool.false_eq_true, if_false]
  split
  · rfl
  · apply List.any_eq_false.2
    intro p hp; simp [hall p hp]

theorem verdict_append (mt : G → PTag → Bool) (a b : List G) (p : PTag) :
    verdict mt (a ++ b) p = match verdict mt b p with | .none => verdict mt a p | v => v := by
  induction a with
  | nil => simp [verdict]; cases verdict mt b p <;> rfl
  | cons g a ih =>
    simp only [List.cons_append, verdict, ih]
    cases verdict mt b p <;> simp

/-- inserting a non-negated pattern anywhere leaves a verdict unchanged or turns it into `ignore` -/
theorem verdict_insert (mt : G → PTag → Bool) (a b : List G) (g : G) (hg : g.neg = false) (p : PTag) :
    verdict mt (a ++ g :: b) p = verdict mt (a ++ b) p ∨ verdict mt (a ++ g :: b) p = .ignore := by
  rw [verdict_append, verdict_append]
  simp only [verdict]
  cases hb : verdict mt b p
  · by_cases hm : mt g p = true
    · right; simp [hm, hg]
    · left; simp [hm]
  · left; simp
  · left; simp

/-- adding a non-negated ignore pattern can only turn a pass into a rejection -/
theorem ignore_monotone (e : Env) (c : Cfg) (a b : List G) (g : G) (hg : g.neg = false) (hc : c.ignores = a ++ b)
    (ps : List PTag) (h : checkEvent e { c with ignores := a ++ g :: b } ps = true) : checkEvent e c ps = true := by
  unfold checkEvent at h ⊢
  split
  · rfl
  · next hw =>
    rw [if_neg hw] at h
    split
    · next hi => rw [if_pos hi] at h; exact h
    · next hi =>
      rw [if_neg hi] at h
      split
      · rfl
      · next hne =>
        rw [if_neg hne] at h
        obtain ⟨p, hp, hpp⟩ := List.any_eq_true.1 h
        apply List.any_eq_true.2
        refine ⟨p, hp, ?_⟩
        have hw' : wanted e { c with ignores := a ++ g :: b } p = wanted e c p := rfl
        by_cases hv : verdict e.mt (a ++ g :: b) p = .ignore
        · simp [hv] at hpp
        · rcases verdict_insert e.mt a b g hg p with h1 | h1
          · have : verdict e.mt c.ignores p ≠ .ignore := by rw [hc, ← h1]; exact hv
            simp only [show (verdict e.mt (a ++ g :: b) p == V.ignore) = false by simpa using hv] at hpp
            simp only [show (verdict e.mt c.ignores p == V.ignore) = false by simpa using this]
            simpa [hw'] using hpp
          · exact absurd h1 hv

/-- the empty configuration passes everything the ignore-file layer passes -/
theorem empty_passes (e : Env) (ps : List PTag) (hi : e.igfPass ps = true) : checkEvent e ⟨[], [], []⟩ ps = true := by
  unfold checkEvent
  split
  · rfl
  · simp only [hi, Bool.not_true, Bool.false_eq_true, if_false]
    split
    · rfl
    · next hne =>
      cases ps with
      | nil => simp at hne
      | cons p r => simp [verdict, wanted, numFilters]

end Sp.C11
