import Wx.Glob.IgnoreFilterC
/-! Spike: ignore_files::from_origin / DirTourist over an explicit tree description. -/
namespace Sp.Disc
open Sp.IF Sp.Glob

/-- the part of the filesystem the walker looks at -/
structure Tree where
  children : List (Str × List Str)     -- directory path ↦ sub-directory paths, in read_dir order
  igfiles : List (Str × List Str)      -- path of a non-empty regular file ↦ its lines
  deriving Repr

def Tree.kids (t : Tree) (d : Str) : List Str := (t.children.find? (·.1 == d)).map (·.2) |>.getD []
def Tree.file? (t : Tree) (p : Str) : Option (List Str) := (t.igfiles.find? (·.1 == p)).map (·.2)

def join (d : Str) (name : String) : Str := (if d == ['/'] then d else d ++ ['/']) ++ name.toList

structure Found where
  path : Str
  appliesIn : Option Str
  deriving Repr

structure W where
  toVisit : List Str          -- stack, top = last
  toSkip : List Str
  filter : Filter
  out : List Found
  deriving Repr

def mustSkip (w : W) (base : Str) (path : Str) : Bool :=
  if w.toSkip.contains path then true else
  let rec up (fuel : Nat) (p : Str) : Bool :=
    match fuel with
    | 0 => false
    | f + 1 => match parentOf p with
      | none => false
      | some par => if par == base then false else if w.toSkip.contains par then true else up f par
  up path.length path

def skip (w : W) (path : Str) : W :=
  { w with toVisit := w.toVisit.filter (fun p => !compPrefix path p), toSkip := path :: w.toSkip }

def related (watches : List Str) (path : Str) : Bool :=
  watches.isEmpty || watches.any (fun p => compPrefix p path || compPrefix path p)

/-- discover_file + add_last_file_to_filter for one candidate name -/
def tryFile (t : Tree) (w : W) (dir : Str) (name : String) : W :=
  let p := join dir name
  match t.file? p with
  | some lines =>
    let w := { w with out := w.out ++ [({ path := p, appliesIn := some dir } : Found)] }
    match w.filter.add (some dir) lines with
    | some f => { w with filter := f }
    | none => w
  | none => w

def visit (t : Tree) (base : Str) (watches : List Str) (w : W) (path : Str) : W :=
  if mustSkip w base path then w else
  if !w.filter.checkDir path then skip w path else
  if !related watches path then skip w path else
  let w := (t.kids path).foldl (fun w c =>
    if mustSkip w base c then w
    else if !w.filter.checkDir c then skip w c
    else { w with toVisit := w.toVisit ++ [c] }) w
  [".ignore", ".gitignore", ".hgignore"].foldl (fun w n => tryFile t w path n) w

/-- `visit_path` as it is in /repo now (F14, F17 repaired): the origin is not judged, children are
    pushed unconditionally and judged when they are popped -/
def visitFix (t : Tree) (base : Str) (watches : List Str) (w : W) (path : Str) : W :=
  if mustSkip w base path then w else
  if path != base && !w.filter.checkDirFix path then skip w path else
  if !related watches path then skip w path else
  let w := (t.kids path).foldl (fun w c =>
    if mustSkip w base c then w
    else { w with toVisit := w.toVisit ++ [c] }) w
  [".ignore", ".gitignore", ".hgignore"].foldl (fun w n => tryFile t w path n) w

def walkFix (t : Tree) (base : Str) (watches : List Str) : Nat → W → W
  | 0, w => w
  | fuel + 1, w =>
    match w.toVisit.getLast? with
    | none => w
    | some p => walkFix t base watches fuel (visitFix t base watches { w with toVisit := w.toVisit.dropLast } p)

def walk (t : Tree) (base : Str) (watches : List Str) : Nat → W → W
  | 0, w => w
  | fuel + 1, w =>
    match w.toVisit.getLast? with
    | none => w
    | some p => walk t base watches fuel (visit t base watches { w with toVisit := w.toVisit.dropLast } p)

def vcsGlobs : List Str := ["/.git", "/.hg", "/.bzr", "/_darcs", "/.fossil-settings", "/.svn", "/.pijul"].map String.toList

/-- from_origin (without the git-config special case) -/
def fromOrigin (t : Tree) (origin : Str) (watches : List Str) (explicit : List Str) : Option (List Found) :=
  let pre : List Found := explicit.map (fun p => ({ path := p, appliesIn := some origin } : Found))
  let fixed := [".bzrignore", "_darcs/prefs/boring", ".fossil-settings/ignore-glob", ".git/info/exclude"]
  let pre := fixed.foldl (fun acc n => match t.file? (join origin n) with
    | some _ => acc ++ [({ path := join origin n, appliesIn := some origin } : Found)] | none => acc) pre
  let files := pre.map (fun f => (f.appliesIn, (t.file? f.path).getD []))
  match Filter.new origin files with
  | none => none
  | some f =>
    match f.add (some origin) vcsGlobs with
    | none => none
    | some f =>
      let w : W := { toVisit := [origin], toSkip := [], filter := f, out := pre }
      some (walk t origin watches (t.children.length + 2) w).out

def vcsDirNames : List String := [".git", ".hg", ".bzr", "_darcs", ".fossil-settings", ".svn", ".pijul"]

/-- from_origin as it is in /repo now: VCS metadata directories of the origin are on the skip list from the start -/
def fromOriginFix (t : Tree) (origin : Str) (watches : List Str) (explicit : List Str) : Option (List Found) :=
  let pre : List Found := explicit.map (fun p => ({ path := p, appliesIn := some origin } : Found))
  let fixed := [".bzrignore", "_darcs/prefs/boring", ".fossil-settings/ignore-glob", ".git/info/exclude"]
  let pre := fixed.foldl (fun acc n => match t.file? (join origin n) with
    | some _ => acc ++ [({ path := join origin n, appliesIn := some origin } : Found)] | none => acc) pre
  let files := pre.map (fun f => (f.appliesIn, (t.file? f.path).getD []))
  match Filter.new origin files with
  | none => none
  | some f =>
    match f.add (some origin) vcsGlobs with
    | none => none
    | some f =>
      let w : W := { toVisit := [origin], toSkip := vcsDirNames.map (join origin), filter := f, out := pre }
      -- every directory is pushed at most once, so (number of directories + 2) pops suffice
      some (walkFix t origin watches (t.children.length + (t.children.map (·.2.length)).sum + 2) w).out

/-! ### the C14 spec: reachable directories, judged by the files of their proper ancestors only -/

def dirFiles (t : Tree) (d : Str) : List (Option Str × List Str) :=
  [".ignore", ".gitignore", ".hgignore"].filterMap (fun n => (t.file? (join d n)).map (fun ls => (some d, ls)))

def specIgnoredDir (origin : Str) (ancFiles : List (Option Str × List Str)) (c : Str) : Bool :=
  -- files are added one by one (listed order within a directory is their precedence)
  match ancFiles.foldl (fun acc (ai, ls) => acc.bind (fun f => f.add ai ls)) (Filter.new origin []) with
  | none => false
  | some f => match f.specMatch c true with
    | .ignore _ _ => true
    | _ => false

/-- depth-first over the tree; `anc` = files of the reachable ancestors (and the origin-level extras) -/
def specWalk (t : Tree) (origin : Str) (watches : List Str) : Nat → List (Str × List (Option Str × List Str)) → List Str → List Str
  | 0, _, acc => acc
  | _, [], acc => acc
  | fuel + 1, (d, anc) :: rest, acc =>
    let mine := dirFiles t d
    let found := [".ignore", ".gitignore", ".hgignore"].filterMap (fun n => (t.file? (join d n)).map (fun _ => join d n))
    let anc' := anc ++ mine
    let vcsDirs := [".git", ".hg", ".bzr", "_darcs", ".fossil-settings", ".svn", ".pijul"].map (join origin)
    let kids := (t.kids d).filter (fun c =>
      !(d == origin && vcsDirs.contains c) && !specIgnoredDir origin anc' c && related watches c)
    specWalk t origin watches fuel (kids.map (fun c => (c, anc')) ++ rest) (acc ++ found)

def specDiscover (t : Tree) (origin : Str) (watches : List Str) (explicit : List Str := []) : List Str :=
  let fixedNames := [".bzrignore", "_darcs/prefs/boring", ".fossil-settings/ignore-glob", ".git/info/exclude"]
  let fixed := fixedNames.filterMap (fun n => (t.file? (join origin n)).map (fun ls => (join origin n, ls)))
  -- explicitly given ignore files apply at the origin, ahead of the origin-level VCS files
  let anc0 : List (Option Str × List Str) :=
    explicit.map (fun p => (some origin, (t.file? p).getD [])) ++ fixed.map (fun (_, ls) => (some origin, ls))
  if !related watches origin then fixed.map (·.1) else
  fixed.map (·.1) ++ specWalk t origin watches (t.children.length + 2) [(origin, anc0)] []

end Sp.Disc
