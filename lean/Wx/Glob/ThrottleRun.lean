import Wx.Glob.Throttle
/-! C01/C02 across the whole life of the action worker: the loop around `throttle_collect`.
    Each call starts with an empty set; a returned batch goes to the handler; the loop ends when the
    channel closes or (in a finite history) the turns run out. -/
namespace Sp.Th

structure Run where
  batches : List (List Ev × Nat × Nat) := []   -- what the handler was called with: (batch, clock at return, `last` of its window)
  received : List Ev := []                     -- everything taken from the event queue, in order
  errs : List Ev := []                         -- runtime errors sent (one per erroring event)
  filtered : List Ev := []                     -- what the filter was asked about
  tail : List Ev := []                         -- accepted events of the last, unfinished call (still pending, or dropped at close)
  deriving Repr

/-- the worker loop; `start` is the `Instant::now()` each call begins with (only read after the first event resets it) -/
def worker : Nat → List Turn → Run
  | 0, _ => {}
  | _, [] => {}
  | fuel + 1, t :: ts =>
    let c := collect { set := [], last := 0 } (t :: ts)
    match c.batch with
    | some b =>
      let r := worker fuel c.rest
      { r with batches := b :: r.batches, received := c.received ++ r.received, errs := c.errs ++ r.errs, filtered := c.filtered ++ r.filtered }
    | none => { received := c.received, errs := c.errs, filtered := c.filtered, tail := c.received.filter accepted }

theorem worker_some (fuel : Nat) (t : Turn) (ts : List Turn) (b) (h : (collect { set := [], last := 0 } (t :: ts)).batch = some b) :
    worker (fuel + 1) (t :: ts) =
      let c := collect { set := [], last := 0 } (t :: ts)
      let r := worker fuel c.rest
      { r with batches := b :: r.batches, received := c.received ++ r.received, errs := c.errs ++ r.errs, filtered := c.filtered ++ r.filtered } := by
  simp only [worker, h]

theorem worker_none (fuel : Nat) (t : Turn) (ts : List Turn) (h : (collect { set := [], last := 0 } (t :: ts)).batch = none) :
    worker (fuel + 1) (t :: ts) =
      let c := collect { set := [], last := 0 } (t :: ts)
      { received := c.received, errs := c.errs, filtered := c.filtered, tail := c.received.filter accepted } := by
  simp only [worker, h]

/-- **C01, whole run**: the batches handed to the handler, concatenated, followed by the accepted events of the
    unfinished last call, are exactly the accepted events in receive order — so every accepted event is in exactly one
    batch (or still pending / dropped at close), no rejected or erroring event is in any batch -/
theorem worker_conserve : ∀ (fuel : Nat) (ts : List Turn),
    ((worker fuel ts).batches.map (·.1)).flatten ++ (worker fuel ts).tail = (worker fuel ts).received.filter accepted
  | 0, ts => by simp [worker]
  | fuel + 1, [] => by simp [worker]
  | fuel + 1, t :: ts => by
    cases hb : (collect { set := [], last := 0 } (t :: ts)).batch with
    | none => rw [worker_none fuel t ts hb]; simp
    | some b =>
      obtain ⟨bb, at_, l⟩ := b
      have hc := collect_conserve { set := [], last := 0 } (t :: ts) bb at_ l hb
      have ih := worker_conserve fuel (collect { set := [], last := 0 } (t :: ts)).rest
      rw [worker_some fuel t ts _ hb]
      simp only [List.map_cons, List.flatten_cons, List.filter_append]
      rw [List.append_assoc, ih, hc.1]
      simp

/-- the handler is never called with an empty batch -/
theorem worker_nonempty : ∀ (fuel : Nat) (ts : List Turn), ∀ b ∈ (worker fuel ts).batches, b.1 ≠ []
  | 0, ts => by simp [worker]
  | fuel + 1, [] => by simp [worker]
  | fuel + 1, t :: ts => by
    cases hb : (collect { set := [], last := 0 } (t :: ts)).batch with
    | none => rw [worker_none fuel t ts hb]; simp
    | some b =>
      obtain ⟨bb, at_, l⟩ := b
      have hc := collect_conserve { set := [], last := 0 } (t :: ts) bb at_ l hb
      have ih := worker_nonempty fuel (collect { set := [], last := 0 } (t :: ts)).rest
      rw [worker_some fuel t ts _ hb]
      intro x hx
      simp only [List.mem_cons] at hx
      rcases hx with rfl | hx
      · exact hc.2
      · exact ih x hx

/-- no rejected or erroring event is ever handed to the handler -/
theorem worker_only_accepted (fuel : Nat) (ts : List Turn) :
    ∀ b ∈ (worker fuel ts).batches, ∀ e ∈ b.1, accepted e = true := by
  intro b hb e he
  have h := worker_conserve fuel ts
  have : e ∈ ((worker fuel ts).batches.map (·.1)).flatten ++ (worker fuel ts).tail :=
    List.mem_append_left _ (List.mem_flatten.2 ⟨b.1, List.mem_map.2 ⟨b, hb, rfl⟩, he⟩)
  rw [h] at this
  exact (List.mem_filter.1 this).2

/-- a non-vacuity check: two events in one window, then a third after it -/
example :
    let ev (i : Nat) (v : Verdict) : Ev := { id := i, prio := .normal, empty := false, verdict := v }
    let tn (top : Nat) (r : Recv) (t : Nat) : Turn := { throttle1 := 50, clock1 := top, recv := r, closedAfter := false, clock2 := t, clock3 := t, throttle2 := 50 }
    ((worker 10 [tn 0 (.got (ev 1 .pass)) 10, tn 10 (.got (ev 2 .reject)) 20, tn 20 (.got (ev 3 .pass)) 30, tn 30 .timeout 60, tn 60 .timeout 60,
                 tn 60 (.got (ev 4 .pass)) 100]).batches.map (fun b => b.1.map (·.id))) = [[1, 3]] := by decide

#print axioms worker_conserve


/-- the turns left after a call are a suffix of the turns it was given -/
theorem collect_rest_sub : ∀ (s : TS) (ts : List Turn), ∀ u ∈ (collect s ts).rest, u ∈ ts
  | _, [] => by simp [collect]
  | s, t :: ts => by
    intro u hu
    unfold collect at hu
    cases hn : (turn s t).next with
    | some s' =>
      simp only [hn] at hu
      exact List.mem_cons_of_mem _ (collect_rest_sub s' ts u hu)
    | none => simp only [hn] at hu; exact List.mem_cons_of_mem _ hu

/-- the event a turn kind carries -/
def Kind.ev? : Kind → Option Ev
  | .gotClosed e | .gotErr e | .gotReject e | .gotUrgent e | .gotWithin e | .gotExpired e => some e
  | _ => none

/-- a turn classified as "got e" did receive e -/
theorem classify_recv (s : TS) (t : Turn) (e : Ev) (h : (classify s t).ev? = some e) : t.recv = .got e := by
  unfold classify at h
  by_cases hw : windowOver s t = true
  · simp [hw, Kind.ev?] at h
  · simp only [hw] at h
    cases hr : t.recv with
    | closed => simp [hr, Kind.ev?] at h
    | timeout =>
      simp only [hr] at h
      by_cases hc : t.closedAfter = true <;> simp [hc, Kind.ev?] at h
    | got e' =>
      simp only [hr] at h
      have : e' = e := by
        (repeat' split at h) <;> simp [Kind.ev?] at h <;> exact h
      rw [this]

/-- one turn starting from an empty set: if it leaves a non-empty set behind, that set is the one event received
    in this turn, and the window starts at this turn's `clock2` reading -/
theorem turn_first_next (s : TS) (t : Turn) (s' : TS) (hs : s.set = []) (h : (turn s t).next = some s') (hne : s'.set ≠ []) :
    ∃ e, t.recv = .got e ∧ s'.set = [e] ∧ s'.last = t.clock2 := by
  have hr := classify_recv s t
  unfold turn at h
  cases hk : classify s t <;> simp only [hk, apply, Kind.ev?] at h hr
  all_goals first
    | (simp at h; done)
    | (simp only [Option.some.injEq] at h; subst h; simp_all [newLast])

/-- one turn starting from an empty set that returns a batch without urgent events: the batch is the one event
    received in this turn and its window started at this turn's `clock2` reading -/
theorem turn_first_batch (s : TS) (t : Turn) (b at_ l) (hs : s.set = []) (h : (turn s t).batch = some (b, at_, l))
    (hnu : ∀ e ∈ b, e.prio ≠ .urgent) :
    ∃ e, t.recv = .got e ∧ b = [e] ∧ l = t.clock2 := by
  have hr := classify_recv s t
  have sp := classify_spec s t
  unfold turn at h
  cases hk : classify s t <;> simp only [hk, apply, KindSpec, Kind.ev?] at h hr sp
  all_goals first
    | (simp at h; done)
    | (simp only [Option.some.injEq, Prod.mk.injEq] at h; obtain ⟨rfl, rfl, rfl⟩ := h; simp_all [newLast])

/-- **C02 for one call of `throttle_collect`** (any starting state): a returned batch without urgent events left in a
    turn whose throttle reading had elapsed since `l`; `l` is the start of the window that was open when the call
    began, or — if none was — the `clock2` reading taken right after the batch's first event was received -/
theorem collect_bound : ∀ (ts : List Turn) (s : TS) (b at_ l), (collect s ts).batch = some (b, at_, l) →
    (∀ e ∈ b, e.prio ≠ .urgent) →
    (∃ t ∈ ts, t.throttle1 ≤ at_ - l ∨ t.throttle2 ≤ at_ - l) ∧ (s.set ≠ [] → l = s.last) ∧
    (s.set = [] → ∃ t ∈ ts, ∃ e, t.recv = .got e ∧ l = t.clock2 ∧ b.head? = some e)
  | [], s, b, at_, l, h, _ => by simp [collect] at h
  | t :: ts, s, b, at_, l, h, hnu => by
    unfold collect at h
    cases hn : (turn s t).next with
    | some s' =>
      simp only [hn] at h
      obtain ⟨i1, i2, i3⟩ := collect_bound ts s' b at_ l h hnu
      obtain ⟨hset, hlast⟩ := turn_next_set s t s' hn
      refine ⟨?_, ?_, ?_⟩
      · obtain ⟨t', ht', hb⟩ := i1; exact ⟨t', List.mem_cons_of_mem _ ht', hb⟩
      · intro hne
        have : s'.set ≠ [] := by rw [hset]; simp [hne]
        rw [i2 this, hlast hne]
      · intro hs
        by_cases hne : s'.set = []
        · obtain ⟨t', ht', e, h1, h2, h3⟩ := i3 hne
          exact ⟨t', List.mem_cons_of_mem _ ht', e, h1, h2, h3⟩
        · obtain ⟨e, h1, h2, h3⟩ := turn_first_next s t s' hs hn hne
          refine ⟨t, List.mem_cons_self, e, h1, ?_, ?_⟩
          · rw [i2 hne, h3]
          · have hc := (collect_conserve s' ts b at_ l h).1
            rw [hc, h2]; rfl
    | none =>
      simp only [hn] at h
      obtain ⟨hb1, hb2⟩ := turn_lower_bound s t b at_ l h hnu
      refine ⟨⟨t, List.mem_cons_self, hb1⟩, hb2, ?_⟩
      intro hs
      obtain ⟨e, h1, h2, h3⟩ := turn_first_batch s t b at_ l hs h hnu
      exact ⟨t, List.mem_cons_self, e, h1, h3, by rw [h2]; rfl⟩

/-- **C02, whole run**: every batch without urgent events that the handler ever gets left no earlier than a throttle
    reading of its returning turn after the `clock2` reading taken when its first event was received -/
theorem worker_bound : ∀ (fuel : Nat) (ts : List Turn), ∀ x ∈ (worker fuel ts).batches, (∀ e ∈ x.1, e.prio ≠ .urgent) →
    (∃ t ∈ ts, t.throttle1 ≤ x.2.1 - x.2.2 ∨ t.throttle2 ≤ x.2.1 - x.2.2) ∧
    (∃ t ∈ ts, ∃ e, t.recv = .got e ∧ x.2.2 = t.clock2 ∧ x.1.head? = some e)
  | 0, ts => by simp [worker]
  | fuel + 1, [] => by simp [worker]
  | fuel + 1, t :: ts => by
    cases hb : (collect { set := [], last := 0 } (t :: ts)).batch with
    | none => rw [worker_none fuel t ts hb]; simp
    | some b =>
      obtain ⟨bb, at_, l⟩ := b
      rw [worker_some fuel t ts _ hb]
      intro x hx hnu
      simp only [List.mem_cons] at hx
      rcases hx with rfl | hx
      · obtain ⟨h1, _, h3⟩ := collect_bound (t :: ts) { set := [], last := 0 } bb at_ l hb hnu
        exact ⟨h1, h3 rfl⟩
      · have ih := worker_bound fuel (collect { set := [], last := 0 } (t :: ts)).rest x hx hnu
        have hsub : ∀ u ∈ (collect { set := [], last := 0 } (t :: ts)).rest, u ∈ t :: ts := collect_rest_sub _ _
        obtain ⟨⟨t1, ht1, hb1⟩, ⟨t2, ht2, hb2⟩⟩ := ih
        exact ⟨⟨t1, hsub t1 ht1, hb1⟩, ⟨t2, hsub t2 ht2, hb2⟩⟩

#print axioms worker_bound
end Sp.Th

namespace Sp.Th

/-- **urgent flushes**: an urgent event received while the channel is open returns, in that very turn, the pending
    set plus itself, and is not shown to the filter -/
theorem turn_urgent (s : TS) (t : Turn) (e : Ev) (hr : t.recv = .got e) (hu : e.prio = .urgent)
    (hw : windowOver s t = false) (hc : t.closedAfter = false) :
    (turn s t).batch = some (s.set ++ [e], t.clock2, newLast s t) ∧ (turn s t).filtered = [] ∧ (turn s t).next = none := by
  have hk : classify s t = .gotUrgent e := by simp [classify, hw, hr, hc, bypass, hu]
  simp [turn, hk, apply, bypass, hu]

/-- **no starvation**: once the top-of-loop clock reading has reached `last + throttle` with a non-empty set, that turn
    returns the set — whatever is waiting in the queue (rejected events cannot postpone it any further) -/
theorem turn_window_over (s : TS) (t : Turn) (hne : s.set ≠ []) (hd : t.throttle1 ≤ t.clock1 - s.last) :
    (turn s t).batch = some (s.set, t.clock1, s.last) ∧ (turn s t).received = [] := by
  have hw : windowOver s t = true := by simp [windowOver, hne, hd]
  have hk : classify s t = .windowOver := by simp [classify, hw]
  simp [turn, hk, apply]

/-- a rejected or erroring event leaves the pending set and its window untouched and does not end the call -/
theorem turn_rejected (s : TS) (t : Turn) (e : Ev) (hr : t.recv = .got e) (hb : bypass e = false) (hv : e.verdict ≠ .pass)
    (hw : windowOver s t = false) (hc : t.closedAfter = false) :
    (turn s t).next = some s ∧ (turn s t).batch = none ∧ (turn s t).errs = (if e.verdict = .err then [e] else []) := by
  cases hv' : e.verdict with
  | pass => exact absurd hv' hv
  | err =>
    have hk : classify s t = .gotErr e := by simp [classify, hw, hr, hc, hb, hv']
    simp [turn, hk, apply]
  | reject =>
    have hk : classify s t = .gotReject e := by simp [classify, hw, hr, hc, hb, hv']
    simp [turn, hk, apply]

end Sp.Th
