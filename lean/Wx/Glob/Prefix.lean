/-! Spike: display strings of component paths; string-prefix vs component-prefix. -/
namespace Sp.Pfx

abbrev Comp := List Char
abbrev CPath := List Comp        -- absolute, normalised: list of components

def okComp (c : Comp) : Prop := c ≠ [] ∧ '/' ∉ c
def okPath (p : CPath) : Prop := ∀ c ∈ p, okComp c

/-- "/a/b" ; the root is "/" -/
def body : CPath → List Char
  | [] => []
  | c :: r => '/' :: c ++ body r

def disp (p : CPath) : List Char := if p = [] then ['/'] else body p

theorem body_cons (c : Comp) (r : CPath) : body (c :: r) = '/' :: c ++ body r := rfl

theorem body_append (a b : CPath) : body (a ++ b) = body a ++ body b := by
  induction a with
  | nil => rfl
  | cons c r ih => simp [body, ih, List.append_assoc]

/-- component-prefix gives string-prefix of bodies -/
theorem body_prefix_of_prefix {a p : CPath} (h : a <+: p) : body a <+: body p := by
  obtain ⟨t, rfl⟩ := h
  rw [body_append]; exact List.prefix_append _ _

/-- a slash-free list is a prefix of `c ++ '/' :: _` and of ... : splitting lemma.
    If x, y are slash-free and x ++ u = y ++ v where u,v are each empty or start with '/', then
    x = y or one is a strict prefix with the other's rest empty. We only need: -/
theorem slashfree_prefix_split {x y u v : List Char} (hx : '/' ∉ x) (hy : '/' ∉ y)
    (hv : v = [] ∨ v.head? = some '/') (hu : u.head? = some '/')
    (h : x ++ u <+: y ++ v) : x = y ∧ u <+: v := by
  induction x generalizing y with
  | nil =>
    -- u starts with '/', y is slash free: so y must be empty
    cases y with
    | nil => simpa using h
    | cons d y' =>
      exfalso
      cases u with
      | nil => simp at hu
      | cons e u' =>
        simp at hu; subst hu
        simp [List.cons_prefix_cons] at h
        exact hy (by rw [← h.1]; exact List.mem_cons_self)
  | cons a x' ih =>
    cases y with
    | nil =>
      exfalso
      simp at h
      rcases hv with rfl | hv
      · simp at h
      · cases v with
        | nil => simp at hv
        | cons e v' =>
          simp at hv; subst hv
          simp [List.cons_prefix_cons] at h
          exact hx (by rw [h.1]; exact List.mem_cons_self)
    | cons d y' =>
      simp [List.cons_prefix_cons] at h
      obtain ⟨rfl, h2⟩ := h
      have hx' : '/' ∉ x' := fun m => hx (List.mem_cons_of_mem _ m)
      have hy' : '/' ∉ y' := fun m => hy (List.mem_cons_of_mem _ m)
      obtain ⟨rfl, h3⟩ := ih hx' hy' h2
      exact ⟨rfl, h3⟩

theorem slashfree_prefix_of {x y v : List Char} (hx : '/' ∉ x)
    (hv : v = [] ∨ v.head? = some '/') (h : x <+: y ++ v) (hy : '/' ∉ y) : x <+: y := by
  induction x generalizing y with
  | nil => exact List.nil_prefix
  | cons a x' ih =>
    cases y with
    | nil =>
      exfalso
      simp at h
      rcases hv with rfl | hv
      · simp at h
      · cases v with
        | nil => simp at hv
        | cons e v' =>
          simp at hv; subst hv
          simp [List.cons_prefix_cons] at h
          exact hx (by rw [h.1]; exact List.mem_cons_self)
    | cons d y' =>
      simp [List.cons_prefix_cons] at h ⊢
      refine ⟨h.1, ih (fun m => hx (List.mem_cons_of_mem _ m)) h.2 (fun m => hy (List.mem_cons_of_mem _ m))⟩

theorem body_head (p : CPath) : body p = [] ∨ (body p).head? = some '/' := by
  cases p <;> simp [body]

theorem body_head_of_ne {p : CPath} (h : p ≠ []) : (body p).head? = some '/' := by
  cases p with
  | nil => exact absurd rfl h
  | cons c r => simp [body]

/-- shape of a key whose display body is a string prefix of the body of `s` -/
theorem body_prefix_shape {k s : CPath} (hk : okPath k) (hs : okPath s) (hne : k ≠ [])
    (h : body k <+: body s) :
    ∃ k0 c c' rest, k = k0 ++ [c] ∧ s = k0 ++ c' :: rest ∧ c <+: c' := by
  induction k generalizing s with
  | nil => exact absurd rfl hne
  | cons c k' ih =>
    cases s with
    | nil =>
      exfalso; simp [body] at h
    | cons c' rest =>
      have hc : okComp c := hk c (List.mem_cons_self)
      have hc' : okComp c' := hs c' (List.mem_cons_self)
      have hk' : okPath k' := fun x m => hk x (List.mem_cons_of_mem _ m)
      have hr : okPath rest := fun x m => hs x (List.mem_cons_of_mem _ m)
      simp only [body, List.cons_append, List.cons_prefix_cons, true_and] at h
      by_cases hk'e : k' = []
      · subst hk'e
        simp [body] at h
        exact ⟨[], c, c', rest, rfl, rfl, slashfree_prefix_of hc.2 (body_head rest) h hc'.2⟩
      · obtain ⟨rfl, h2⟩ := slashfree_prefix_split hc.2 hc'.2 (body_head rest) (body_head_of_ne hk'e) h
        obtain ⟨k0, d, d', rest', rfl, rfl, hd⟩ := ih hk' hr hk'e h2
        exact ⟨c :: k0, d, d', rest', rfl, rfl, hd⟩

end Sp.Pfx
