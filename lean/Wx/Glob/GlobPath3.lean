import Wx.Glob.GlobPath2
/-! Directory-only lines (`name/`): the same walk, but the path itself counts only when it is a directory; every directory above it
    counts (a parent is a directory). -/
namespace Sp.Glob

/-- one not-negated glob, directories-only or not -/
theorem matchedStripped_single' (g : GGlob) (hw : g.isWhitelist = false) (cand : List Char) (isDir : Bool) :
    matchedStripped [g] cand isDir = if mtch g.toks cand && (!g.isOnlyDir || isDir) then .ignore 0 else .none := by
  unfold matchedStripped
  simp only [List.length_cons, List.length_nil, List.range_one, List.reverse_singleton]
  by_cases hm : (mtch g.toks cand && (!g.isOnlyDir || isDir)) = true
  · simp [hm, hw]
  · have : (mtch g.toks cand && (!g.isOnlyDir || isDir)) = false := by simpa using hm
    simp [this]

/-- a not-negated glob that looks at the last component of the candidate only (directories-only or not) -/
structure LastCompDir (g : GGlob) (P : List Char → Prop) : Prop where
  plain : g.isWhitelist = false
  nil : mtch g.toks [] = false
  last : ∀ (cs : List (List Char)) (c : List Char), (∀ x ∈ cs, Comp x) → Comp c → (mtch g.toks (join (cs ++ [c])) = true ↔ P c)

/-- walking up from a path: some proper ancestor's last component satisfies `P` -/
theorem lastCompDir_up_iff (g : GGlob) (P : List Char → Prop) (hg : LastCompDir g P) : ∀ (cs : List (List Char)) (fuel : Nat), (∀ x ∈ cs, Comp x) → cs.length ≤ fuel →
    (matchedOrParents.up [g] fuel (join cs) ≠ .none ↔ ∃ c ∈ cs.dropLast, P c) := by
  intro cs0
  -- induction on the number of components, peeling the last one off
  generalize hlen0 : cs0.length = k
  induction k generalizing cs0 with
  | zero =>
    have : cs0 = [] := List.eq_nil_of_length_eq_zero hlen0
    subst this
    intro fuel _ _
    cases fuel with
    | zero => simp [matchedOrParents.up]
    | succ f => simp [matchedOrParents.up, join, parentOf_nil]
  | succ k ih0 =>
    have hne0 : cs0 ≠ [] := by intro e; rw [e] at hlen0; simp at hlen0
    obtain ⟨cs, c, rfl⟩ : ∃ cs c, cs0 = cs ++ [c] := ⟨cs0.dropLast, cs0.getLast hne0, (List.dropLast_concat_getLast hne0).symm⟩
    have hk : cs.length = k := by simp at hlen0; omega
    have ih := fun fuel h1 h2 => ih0 cs hk fuel h1 h2
    intro fuel hc hf
    have hcs : ∀ x ∈ cs, Comp x := fun x hx => hc x (by simp [hx])
    have hcc : Comp c := hc c (by simp)
    cases fuel with
    | zero => simp at hf
    | succ f =>
      have hf' : cs.length ≤ f := by simp at hf; omega
      simp only [List.dropLast_concat]
      by_cases hi : cs = []
      · subst hi
        simp only [List.nil_append, join, matchedOrParents.up, parentOf_single c hcc]
        rw [matchedStripped_single' _ hg.plain]
        have : mtch g.toks [] = false := hg.nil
        simp only [this, Bool.false_and, Bool.false_eq_true, if_false]
        have h0 : matchedOrParents.up [g] f [] = .none := by
          cases f <;> simp [matchedOrParents.up, parentOf_nil]
        simp [h0]
      · simp only [matchedOrParents.up, parentOf_join_snoc cs c hi hcs hcc]
        rw [matchedStripped_single' _ hg.plain]
        obtain ⟨init, last, rfl⟩ : ∃ init last, cs = init ++ [last] :=
          ⟨cs.dropLast, cs.getLast hi, (List.dropLast_concat_getLast hi).symm⟩
        have hm := hg.last init last (fun x hx => hcs x (by simp [hx])) (hcs last (by simp))
        by_cases hl : P last
        · have : mtch g.toks (join (init ++ [last])) = true := hm.2 hl
          simp only [this, Bool.or_true, Bool.and_self, if_true]
          constructor
          · intro _; exact ⟨last, by simp, hl⟩
          · intro _ h; cases h
        · have : mtch g.toks (join (init ++ [last])) = false := by
            cases h : mtch g.toks (join (init ++ [last])) with
            | false => rfl
            | true => exact absurd (hm.1 h) hl
          simp only [this, Bool.false_and, Bool.false_eq_true, if_false]
          rw [ih f hcs (by rw [← hk]; exact hf')]
          simp only [List.dropLast_concat]
          constructor
          · rintro ⟨x, hx, hp⟩; exact ⟨x, by simp [hx], hp⟩
          · rintro ⟨x, hx, hp⟩
            rcases List.mem_append.1 hx with hx | hx
            · exact ⟨x, hx, hp⟩
            · simp only [List.mem_singleton] at hx; subst hx; exact absurd hp hl


/-- **a directories-only line** (`name/`): ignores a path exactly when the path is a directory whose own last component is accepted, or
    some directory above it has an accepted last component — a FILE called `name` is not ignored by `name/`, everything below a
    directory `name` is -/
theorem lastCompDir_ignores_iff (g : GGlob) (P : List Char → Prop) (hg : LastCompDir g P) (hd : g.isOnlyDir = true) (root path : List Char)
    (cs : List (List Char)) (hne : cs ≠ []) (hcs : ∀ x ∈ cs, Comp x) (hstrip : strip root path = join cs) (isDir : Bool) :
    matchedOrParents root [g] path isDir ≠ .none ↔ (isDir = true ∧ ∃ h : cs ≠ [], P (cs.getLast h)) ∨ ∃ c ∈ cs.dropLast, P c := by
  unfold matchedOrParents
  simp only [List.isEmpty_cons, Bool.false_eq_true, if_false, hstrip]
  rw [matchedStripped_single' _ hg.plain]
  obtain ⟨init, last, rfl⟩ : ∃ init last, cs = init ++ [last] := ⟨cs.dropLast, cs.getLast hne, (List.dropLast_concat_getLast hne).symm⟩
  have hm := hg.last init last (fun x hx => hcs x (by simp [hx])) (hcs last (by simp))
  have hlen : (init ++ [last]).length ≤ (join (init ++ [last])).length := by
    have : ∀ (l : List (List Char)), (∀ x ∈ l, Comp x) → l.length ≤ (join l).length := by
      intro l hl
      induction l with
      | nil => simp [join]
      | cons a l ih =>
        have ha := (hl a List.mem_cons_self).1
        have hal : 1 ≤ a.length := by cases a with | nil => exact absurd rfl ha | cons _ _ => simp
        cases l with
        | nil => simpa [join] using hal
        | cons b l =>
          have := ih (fun x hx => hl x (List.mem_cons_of_mem _ hx))
          simp only [join, List.length_cons, List.length_append] at this ⊢
          omega
    exact this _ hcs
  have hup := lastCompDir_up_iff g P hg (init ++ [last]) _ hcs hlen
  have hgl : ∀ h : init ++ [last] ≠ [], (init ++ [last]).getLast h = last := by intro h; simp
  simp only [List.dropLast_concat, hd, Bool.not_true, Bool.false_or] at hup ⊢
  by_cases hself : (mtch g.toks (join (init ++ [last])) && isDir) = true
  · simp only [hself, if_true]
    simp only [Bool.and_eq_true] at hself
    constructor
    · intro _; exact Or.inl ⟨hself.2, by simp, by rw [hgl]; exact hm.1 hself.1⟩
    · intro _ h; cases h
  · have hf : (mtch g.toks (join (init ++ [last])) && isDir) = false := by simpa using hself
    simp only [hf, Bool.false_eq_true, if_false]
    rw [hup]
    constructor
    · intro h; exact Or.inr h
    · rintro (⟨hd', _, hp⟩ | h)
      · exfalso
        rw [hgl] at hp
        have : mtch g.toks (join (init ++ [last])) = true := hm.2 hp
        rw [this, hd'] at hf; cases hf
      · exact h

/-- the glob of the line `name/` -/
def dirGlob (orig n : List Char) : GGlob := ⟨orig, .recPrefix :: lits n, false, true⟩

theorem dirGlob_lastComp (orig n : List Char) (hn : Clean n) : LastCompDir (dirGlob orig n) (fun c => c = n) where
  plain := rfl
  nil := (nameGlob_lastComp orig n hn).nil
  last := fun cs c hcs hc => mtch_name_join n hn cs c hcs hc

/-- **the line `name/`**: a directory `name` and everything below a directory `name`, never a file called `name` -/
theorem dir_line_ignores_iff (n orig root path : List Char) (hn : Clean n) (cs : List (List Char)) (hne : cs ≠ []) (hcs : ∀ x ∈ cs, Comp x)
    (hstrip : strip root path = join cs) (isDir : Bool) :
    matchedOrParents root [dirGlob orig n] path isDir ≠ .none ↔ (isDir = true ∧ ∃ h : cs ≠ [], cs.getLast h = n) ∨ ∃ c ∈ cs.dropLast, c = n :=
  lastCompDir_ignores_iff (dirGlob orig n) _ (dirGlob_lastComp orig n hn) rfl root path cs hne hcs hstrip isDir

/-- `dirGlob` is what `add_line` makes of `name/` -/
theorem addLine_is_dirGlob (n : List Char) (hn : Clean n) : addLine (n ++ ['/']) = some (some (dirGlob (n ++ ['/']) n)) := by
  have := addLine_name false true n hn
  simpa [dirGlob] using this

#print axioms dir_line_ignores_iff
end Sp.Glob
