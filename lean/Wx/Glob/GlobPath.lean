import Wx.Glob.GlobThm
/-! From globs to paths: what `matched_path_or_any_parents` makes of a slash-free ignore line. A relative path is a list of
    components; its string is the components joined by `/`. The line `name` ignores exactly the paths that HAVE a component
    `name` — the path itself or any directory above it inside the ignore file's directory — for every name and every path. -/
namespace Sp.Glob

/-- a path component: non-empty, slash-free -/
def Comp (c : List Char) : Prop := c ≠ [] ∧ ∀ x ∈ c, x ≠ '/'

def join : List (List Char) → List Char
  | [] => []
  | [c] => c
  | c :: d :: r => c ++ '/' :: join (d :: r)

theorem join_snoc (cs : List (List Char)) (c : List Char) (hne : cs ≠ []) : join (cs ++ [c]) = join cs ++ '/' :: c := by
  induction cs with
  | nil => exact absurd rfl hne
  | cons a cs ih =>
    cases cs with
    | nil => rfl
    | cons b cs =>
      have := ih (by simp)
      simp only [List.cons_append] at this ⊢
      show a ++ '/' :: join (b :: (cs ++ [c])) = (a ++ '/' :: join (b :: cs)) ++ '/' :: c
      rw [this]; simp

theorem join_ne_nil {cs : List (List Char)} (hne : cs ≠ []) (hc : ∀ c ∈ cs, Comp c) : join cs ≠ [] := by
  cases cs with
  | nil => exact absurd rfl hne
  | cons a cs =>
    have ha := (hc a List.mem_cons_self).1
    cases cs with
    | nil => exact ha
    | cons b cs => intro h; have := congrArg List.length h; simp [join] at this

/-- the last character of a joined path is a character of its last component: not a slash -/
theorem join_reverse_head {cs : List (List Char)} (hne : cs ≠ []) (hc : ∀ c ∈ cs, Comp c) :
    ∃ a rr, (join cs).reverse = a :: rr ∧ a ≠ '/' := by
  obtain ⟨init, last, rfl⟩ : ∃ init last, cs = init ++ [last] := ⟨cs.dropLast, cs.getLast hne, (List.dropLast_concat_getLast hne).symm⟩
  have hl := hc last (by simp)
  have hlr : ∃ a rr, last.reverse = a :: rr ∧ a ≠ '/' := by
    cases hr : last.reverse with
    | nil => exact absurd (by simpa using hr) hl.1
    | cons a rr =>
      have : a ∈ last := by have : a ∈ last.reverse := by rw [hr]; exact List.mem_cons_self
                            simpa using this
      exact ⟨a, rr, rfl, hl.2 a this⟩
  obtain ⟨a, rr, hr, ha⟩ := hlr
  by_cases hi : init = []
  · subst hi; exact ⟨a, rr, by simpa [join] using hr, ha⟩
  · rw [join_snoc init last hi]
    exact ⟨a, rr ++ '/' :: (join init).reverse, by simp [hr], ha⟩

theorem dropWhile_notSlash_comp {c : List Char} (hc : Comp c) (rest : List Char) :
    (c.reverse ++ '/' :: rest).dropWhile (· != '/') = '/' :: rest := by
  have : ∀ (l : List Char), (∀ x ∈ l, x ≠ '/') → (l ++ '/' :: rest).dropWhile (· != '/') = '/' :: rest := by
    intro l hl
    induction l with
    | nil => simp
    | cons x l ih =>
      have hx := hl x List.mem_cons_self
      simp only [List.cons_append]
      rw [List.dropWhile_cons_of_pos (by simpa using hx)]
      exact ih (fun y hy => hl y (List.mem_cons_of_mem _ hy))
  exact this c.reverse (fun x hx => hc.2 x (by simpa using hx))

/-- `Path::parent` of a relative path with at least two components: the path of the components but the last -/
theorem parentOf_join_snoc (cs : List (List Char)) (c : List Char) (hne : cs ≠ []) (hcs : ∀ x ∈ cs, Comp x) (hc : Comp c) :
    parentOf (join (cs ++ [c])) = some (join cs) := by
  rw [join_snoc cs c hne]
  unfold parentOf
  have hemp : (join cs ++ '/' :: c).isEmpty = false := by cases h : join cs <;> simp
  simp only [hemp, Bool.false_eq_true, if_false, List.reverse_append, List.reverse_cons, List.append_assoc, List.singleton_append]
  rw [dropWhile_notSlash_comp hc]
  simp only []
  obtain ⟨a, rr, hr, ha⟩ := join_reverse_head hne hcs
  rw [hr, List.dropWhile_cons_of_neg (by simpa using ha)]
  simp only [List.isEmpty_cons, Bool.false_eq_true, if_false]
  rw [← hr, List.reverse_reverse]

/-- … and of a single component: the empty path -/
theorem parentOf_single (c : List Char) (hc : Comp c) : parentOf c = some [] := by
  unfold parentOf
  have hemp : c.isEmpty = false := by cases h : c with | nil => exact absurd h hc.1 | cons _ _ => rfl
  simp only [hemp, Bool.false_eq_true, if_false]
  have dw : ∀ (l : List Char), (∀ x ∈ l, x ≠ '/') → l.dropWhile (· != '/') = [] := by
    intro l hl
    induction l with
    | nil => rfl
    | cons x l ih =>
      rw [List.dropWhile_cons_of_pos (by simpa using hl x List.mem_cons_self)]
      exact ih (fun y hy => hl y (List.mem_cons_of_mem _ hy))
  rw [dw c.reverse (fun x hx => hc.2 x (by simpa using hx))]

theorem parentOf_nil : parentOf [] = none := rfl

/-! ### one glob made from a slash-free name -/

/-- the glob of the line `name` -/
def nameGlob (orig n : List Char) : GGlob := ⟨orig, .recPrefix :: lits n, false, false⟩

theorem matchedStripped_single (g : GGlob) (hw : g.isWhitelist = false) (hd : g.isOnlyDir = false) (cand : List Char) (isDir : Bool) :
    matchedStripped [g] cand isDir = if mtch g.toks cand then .ignore 0 else .none := by
  unfold matchedStripped
  simp only [List.length_cons, List.length_nil, List.range_one, List.reverse_singleton]
  by_cases hm : mtch g.toks cand = true
  · simp [hm, hd, hw]
  · have : mtch g.toks cand = false := by simpa using hm
    simp [this]

/-- the last component of a joined path -/
theorem mtch_name_join (n : List Char) (hn : Clean n) (cs : List (List Char)) (c : List Char) (hcs : ∀ x ∈ cs, Comp x) (hc : Comp c) :
    mtch (.recPrefix :: lits n) (join (cs ++ [c])) = true ↔ c = n := by
  rw [name_matches n _ hn]
  have hnc : ∀ x ∈ n, x ≠ '/' := fun x hx => (hn.chars x hx).2.1
  by_cases hi : cs = []
  · subst hi
    simp only [List.nil_append, join]
    constructor
    · rintro (h | ⟨pre, h⟩)
      · exact h
      · exact absurd (h ▸ (by simp : '/' ∈ pre ++ '/' :: n)) (fun hm => hc.2 '/' hm rfl)
    · intro h; exact Or.inl h
  · rw [join_snoc cs c hi]
    constructor
    · rintro (h | ⟨pre, h⟩)
      · exact absurd (h ▸ (by simp : '/' ∈ join cs ++ '/' :: c)) (fun hm => hnc '/' hm rfl)
      · -- compare the slash-free suffixes behind the last slash
        have key : ∀ (a b u v : List Char), (∀ x ∈ u, x ≠ '/') → (∀ x ∈ v, x ≠ '/') → a ++ '/' :: u = b ++ '/' :: v → u = v := by
          intro a b u v hu hv e
          have e' := congrArg List.reverse e
          simp only [List.reverse_append, List.reverse_cons, List.append_assoc, List.singleton_append] at e'
          have t1 := congrArg (List.takeWhile (· != '/')) e'
          have tw : ∀ (l rest : List Char), (∀ x ∈ l, x ≠ '/') → (l ++ '/' :: rest).takeWhile (· != '/') = l := by
            intro l rest hl
            induction l with
            | nil => simp
            | cons x l ih =>
              have hx := hl x List.mem_cons_self
              simp only [List.cons_append]
              rw [List.takeWhile_cons_of_pos (by simpa using hx), ih (fun y hy => hl y (List.mem_cons_of_mem _ hy))]
          rw [tw u.reverse _ (fun x hx => hu x (by simpa using hx)), tw v.reverse _ (fun x hx => hv x (by simpa using hx))] at t1
          simpa using congrArg List.reverse t1
        exact key _ _ _ _ hc.2 hnc h
    · rintro rfl; exact Or.inr ⟨join cs, rfl⟩

/-- walking up from a path: some proper ancestor has last component `n` -/
theorem up_iff (n orig : List Char) (hn : Clean n) : ∀ (cs : List (List Char)) (fuel : Nat), (∀ x ∈ cs, Comp x) → cs.length ≤ fuel →
    (matchedOrParents.up [nameGlob orig n] fuel (join cs) ≠ .none ↔ ∃ c ∈ cs.dropLast, c = n) := by
  intro cs0
  -- induction on the number of components, peeling the last one off
  generalize hlen0 : cs0.length = k
  induction k generalizing cs0 with
  | zero =>
    have : cs0 = [] := List.eq_nil_of_length_eq_zero hlen0
    subst this
    intro fuel _ _
    cases fuel with
    | zero => simp [matchedOrParents.up]
    | succ f => simp [matchedOrParents.up, join, parentOf_nil]
  | succ k ih0 =>
    have hne0 : cs0 ≠ [] := by intro e; rw [e] at hlen0; simp at hlen0
    obtain ⟨cs, c, rfl⟩ : ∃ cs c, cs0 = cs ++ [c] := ⟨cs0.dropLast, cs0.getLast hne0, (List.dropLast_concat_getLast hne0).symm⟩
    have hk : cs.length = k := by simp at hlen0; omega
    have ih := fun fuel h1 h2 => ih0 cs hk fuel h1 h2
    intro fuel hc hf
    have hcs : ∀ x ∈ cs, Comp x := fun x hx => hc x (by simp [hx])
    have hcc : Comp c := hc c (by simp)
    cases fuel with
    | zero => simp at hf
    | succ f =>
      have hf' : cs.length ≤ f := by simp at hf; omega
      simp only [List.dropLast_concat]
      by_cases hi : cs = []
      · subst hi
        simp only [List.nil_append, join, matchedOrParents.up, parentOf_single c hcc]
        rw [matchedStripped_single _ rfl rfl]
        have : mtch (nameGlob orig n).toks [] = false := by
          have := (name_matches n [] hn)
          cases hm : mtch (Tok.recPrefix :: lits n) [] with
          | false => exact hm
          | true =>
            rcases this.1 hm with h | ⟨pre, h⟩
            · exact absurd h.symm hn.ne
            · have := congrArg List.length h; simp at this
        simp only [this, Bool.false_eq_true, if_false]
        have h0 : matchedOrParents.up [nameGlob orig n] f [] = .none := by
          cases f <;> simp [matchedOrParents.up, parentOf_nil]
        simp [h0]
      · simp only [matchedOrParents.up, parentOf_join_snoc cs c hi hcs hcc]
        rw [matchedStripped_single _ rfl rfl]
        obtain ⟨init, last, rfl⟩ : ∃ init last, cs = init ++ [last] :=
          ⟨cs.dropLast, cs.getLast hi, (List.dropLast_concat_getLast hi).symm⟩
        have hm := mtch_name_join n hn init last (fun x hx => hcs x (by simp [hx])) (hcs last (by simp))
        by_cases hl : last = n
        · have : mtch (nameGlob orig n).toks (join (init ++ [last])) = true := hm.2 hl
          simp only [this, if_true]
          constructor
          · intro _; exact ⟨last, by simp, hl⟩
          · intro _ h; cases h
        · have : mtch (nameGlob orig n).toks (join (init ++ [last])) = false := by
            cases h : mtch (nameGlob orig n).toks (join (init ++ [last])) with
            | false => rfl
            | true => exact absurd (hm.1 h) hl
          simp only [this, Bool.false_eq_true, if_false]
          rw [ih f hcs (by rw [← hk]; exact hf')]
          simp only [List.dropLast_concat]
          constructor
          · rintro ⟨x, hx, rfl⟩; exact ⟨x, by simp [hx], rfl⟩
          · rintro ⟨x, hx, rfl⟩
            rcases List.mem_append.1 hx with hx | hx
            · exact ⟨x, hx, rfl⟩
            · simp only [List.mem_singleton] at hx; exact absurd hx.symm hl

/-- **the line `name`** ignores exactly the paths that have a component `name`: the path itself or a directory above it
    (`matched_path_or_any_parents`, relative path given by its components) — for every name, every path, file or directory -/
theorem name_ignores_iff (n orig root path : List Char) (hn : Clean n) (cs : List (List Char)) (hne : cs ≠ []) (hcs : ∀ x ∈ cs, Comp x)
    (hstrip : strip root path = join cs) (isDir : Bool) :
    matchedOrParents root [nameGlob orig n] path isDir ≠ .none ↔ ∃ c ∈ cs, c = n := by
  unfold matchedOrParents
  simp only [List.isEmpty_cons, Bool.false_eq_true, if_false, hstrip]
  rw [matchedStripped_single _ rfl rfl]
  obtain ⟨init, last, rfl⟩ : ∃ init last, cs = init ++ [last] := ⟨cs.dropLast, cs.getLast hne, (List.dropLast_concat_getLast hne).symm⟩
  have hm := mtch_name_join n hn init last (fun x hx => hcs x (by simp [hx])) (hcs last (by simp))
  by_cases hl : last = n
  · have : mtch (nameGlob orig n).toks (join (init ++ [last])) = true := hm.2 hl
    simp only [this, if_true]
    constructor
    · intro _; exact ⟨last, by simp, hl⟩
    · intro _ h; cases h
  · have : mtch (nameGlob orig n).toks (join (init ++ [last])) = false := by
      cases h : mtch (nameGlob orig n).toks (join (init ++ [last])) with
      | false => rfl
      | true => exact absurd (hm.1 h) hl
    simp only [this, Bool.false_eq_true, if_false]
    have hlen : (init ++ [last]).length ≤ (join (init ++ [last])).length := by
      have : ∀ (l : List (List Char)), (∀ x ∈ l, Comp x) → l.length ≤ (join l).length := by
        intro l hl
        induction l with
        | nil => simp [join]
        | cons a l ih =>
          have ha := (hl a List.mem_cons_self).1
          have hal : 1 ≤ a.length := by cases a with | nil => exact absurd rfl ha | cons _ _ => simp
          cases l with
          | nil => simpa [join] using hal
          | cons b l =>
            have := ih (fun x hx => hl x (List.mem_cons_of_mem _ hx))
            simp only [join, List.length_cons, List.length_append] at this ⊢
            omega
      exact this _ hcs
    rw [up_iff n orig hn (init ++ [last]) _ hcs hlen]
    simp only [List.dropLast_concat]
    constructor
    · rintro ⟨x, hx, rfl⟩; exact ⟨x, by simp [hx], rfl⟩
    · rintro ⟨x, hx, rfl⟩
      rcases List.mem_append.1 hx with hx | hx
      · exact ⟨x, hx, rfl⟩
      · simp only [List.mem_singleton] at hx; exact absurd hx.symm hl

/-- non-vacuity, kernel-evaluated on the model: `target` ignores `a/target/x.o` and `target`, not `a/targets/x.o` -/
example :
    let t : List Char := ['t', 'a', 'r', 'g', 'e', 't']
    let g := nameGlob t t
    (matchedOrParents ['.'] [g] (['a', '/'] ++ t ++ ['/', 'x', '.', 'o']) false != .none) = true ∧
    (matchedOrParents ['.'] [g] t true != .none) = true ∧
    (matchedOrParents ['.'] [g] (['a', '/'] ++ t ++ ['s', '/', 'x', '.', 'o']) false != .none) = false := by decide

#print axioms name_ignores_iff
end Sp.Glob
