/-! Spike: throttle_collect, turn by turn, and the C01/C02 statements. -/
namespace Sp.Th

inductive Prio | low | normal | high | urgent deriving DecidableEq, Repr
inductive Verdict | pass | reject | err deriving DecidableEq, Repr

structure Ev where
  id : Nat
  prio : Prio
  empty : Bool
  verdict : Verdict
  deriving DecidableEq, Repr

inductive Recv | timeout | closed | got (e : Ev) deriving Repr

/-- external inputs of one loop turn, in the order the code reads them -/
structure Turn where
  throttle1 : Nat      -- config.throttle.get() at the top (only read when set ≠ [])
  clock1 : Nat         -- last.elapsed() at the top
  recv : Recv          -- outcome of timeout(maxtime, events.recv())
  closedAfter : Bool   -- events.is_closed() after the await
  clock2 : Nat         -- Instant::now() when the first event resets the window
  clock3 : Nat         -- last.elapsed() after push
  throttle2 : Nat      -- config.throttle.get() after push
  deriving Repr

structure TS where
  set : List Ev := []
  last : Nat := 0
  deriving Repr

def accepted (e : Ev) : Bool := e.prio == .urgent || e.empty || e.verdict == .pass

/-- what one turn did -/
structure Step where
  next : Option TS          -- some = loop again
  batch : Option (List Ev × Nat × Nat) := none   -- returned batch, clock at return, `last` of its window
  received : List Ev := []
  errs : List Ev := []
  filtered : List Ev := []  -- events handed to the filter
  lost : List Ev := []      -- dropped at close
  deriving Repr

def windowOver (s : TS) (t : Turn) : Bool := !s.set.isEmpty && t.throttle1 ≤ t.clock1 - s.last
def bypass (e : Ev) : Bool := e.prio == .urgent || e.empty
def newLast (s : TS) (t : Turn) : Nat := if s.set.isEmpty then t.clock2 else s.last

/-- which path through the loop body this turn takes -/
inductive Kind
  | windowOver | closed | timeoutClosed | timeoutCont
  | gotClosed (e : Ev) | gotErr (e : Ev) | gotReject (e : Ev)
  | gotUrgent (e : Ev) | gotWithin (e : Ev) | gotExpired (e : Ev)
  deriving Repr, DecidableEq

def classify (s : TS) (t : Turn) : Kind :=
  if windowOver s t then .windowOver else
  match t.recv with
  | .closed => .closed
  | .timeout => if t.closedAfter then .timeoutClosed else .timeoutCont
  | .got e =>
    if t.closedAfter then .gotClosed e
    else if !bypass e && e.verdict == .err then .gotErr e
    else if !bypass e && e.verdict == .reject then .gotReject e
    else if e.prio == .urgent then .gotUrgent e
    else if t.clock3 - newLast s t < t.throttle2 then .gotWithin e
    else .gotExpired e

def apply (s : TS) (t : Turn) : Kind → Step
  | .windowOver => { next := none, batch := some (s.set, t.clock1, s.last) }
  | .closed | .timeoutClosed => { next := none, lost := s.set }
  | .timeoutCont => { next := some s }
  | .gotClosed e => { next := none, received := [e], lost := s.set ++ [e] }
  | .gotErr e => { next := some s, received := [e], errs := [e], filtered := [e] }
  | .gotReject e => { next := some s, received := [e], filtered := [e] }
  | .gotUrgent e => { next := none, batch := some (s.set ++ [e], t.clock2, newLast s t), received := [e],
                      filtered := if bypass e then [] else [e] }
  | .gotWithin e => { next := some ⟨s.set ++ [e], newLast s t⟩, received := [e], filtered := if bypass e then [] else [e] }
  | .gotExpired e => { next := none, batch := some (s.set ++ [e], t.clock3, newLast s t), received := [e],
                       filtered := if bypass e then [] else [e] }

/-- one iteration of the `loop` in throttle_collect -/
def turn (s : TS) (t : Turn) : Step := apply s t (classify s t)

theorem accepted_iff (e : Ev) : accepted e = true ↔ (bypass e = true ∨ e.verdict = .pass) := by
  unfold accepted bypass; cases e.prio <;> cases e.empty <;> cases e.verdict <;> simp

/-- what the classification tells us (one lemma, all later proofs are flat case splits) -/
def KindSpec (s : TS) (t : Turn) : Kind → Prop
  | .windowOver => s.set ≠ [] ∧ t.throttle1 ≤ t.clock1 - s.last
  | .gotErr e => accepted e = false ∧ e.verdict = .err ∧ bypass e = false
  | .gotReject e => accepted e = false ∧ e.verdict = .reject ∧ bypass e = false
  | .gotUrgent e => accepted e = true ∧ e.prio = .urgent ∧ bypass e = true
  | .gotWithin e => accepted e = true ∧ e.prio ≠ .urgent ∧ t.clock3 - newLast s t < t.throttle2
                      ∧ (bypass e = false → e.verdict = .pass)
  | .gotExpired e => accepted e = true ∧ e.prio ≠ .urgent ∧ t.throttle2 ≤ t.clock3 - newLast s t
                      ∧ (bypass e = false → e.verdict = .pass)
  | _ => True

theorem classify_spec (s : TS) (t : Turn) : KindSpec s t (classify s t) := by
  by_cases hw : windowOver s t = true
  · have hk : classify s t = .windowOver := by simp [classify, hw]
    rw [hk]; simp [windowOver] at hw; simp [KindSpec, hw]
  · cases hr : t.recv with
    | closed => have hk : classify s t = .closed := by simp [classify, hw, hr]
                rw [hk]; trivial
    | timeout =>
      by_cases hc : t.closedAfter = true
      · have hk : classify s t = .timeoutClosed := by simp [classify, hw, hr, hc]
        rw [hk]; trivial
      · have hk : classify s t = .timeoutCont := by simp [classify, hw, hr, hc]
        rw [hk]; trivial
    | got e =>
      by_cases hc : t.closedAfter = true
      · have hk : classify s t = .gotClosed e := by simp [classify, hw, hr, hc]
        rw [hk]; trivial
      · have hacc := accepted_iff e
        by_cases hb : bypass e = true
        · have ha : accepted e = true := hacc.mpr (Or.inl hb)
          by_cases hu : e.prio = .urgent
          · have hk : classify s t = .gotUrgent e := by simp [classify, hw, hr, hc, hb, hu]
            rw [hk]; exact ⟨ha, hu, hb⟩
          · by_cases hlt : t.clock3 - newLast s t < t.throttle2
            · have hk : classify s t = .gotWithin e := by simp [classify, hw, hr, hc, hb, hu, hlt]
              rw [hk]; exact ⟨ha, hu, hlt, by simp [hb]⟩
            · have hk : classify s t = .gotExpired e := by simp [classify, hw, hr, hc, hb, hu, hlt]
              rw [hk]; exact ⟨ha, hu, by omega, by simp [hb]⟩
        · have hb' : bypass e = false := by simpa using hb
          have hu : e.prio ≠ .urgent := by intro h; simp [bypass, h] at hb'
          cases hv : e.verdict with
          | err =>
            have hk : classify s t = .gotErr e := by simp [classify, hw, hr, hc, hb', hv]
            rw [hk]; refine ⟨?_, hv, hb'⟩
            cases h : accepted e <;> simp_all
          | reject =>
            have hk : classify s t = .gotReject e := by simp [classify, hw, hr, hc, hb', hv]
            rw [hk]; refine ⟨?_, hv, hb'⟩
            cases h : accepted e <;> simp_all
          | pass =>
            have ha : accepted e = true := hacc.mpr (Or.inr hv)
            by_cases hlt : t.clock3 - newLast s t < t.throttle2
            · have hk : classify s t = .gotWithin e := by simp [classify, hw, hr, hc, hb', hv, hu, hlt]
              rw [hk]; exact ⟨ha, hu, hlt, fun _ => hv⟩
            · have hk : classify s t = .gotExpired e := by simp [classify, hw, hr, hc, hb', hv, hu, hlt]
              rw [hk]; exact ⟨ha, hu, by omega, fun _ => hv⟩

structure Call where
  batch : Option (List Ev × Nat × Nat) := none
  received : List Ev := []
  errs : List Ev := []
  filtered : List Ev := []
  lost : List Ev := []
  rest : List Turn := []
  deriving Repr

def collect : TS → List Turn → Call
  | _, [] => {}
  | s, t :: ts =>
    let st := turn s t
    match st.next with
    | some s' =>
      let c := collect s' ts
      { c with received := st.received ++ c.received, errs := st.errs ++ c.errs, filtered := st.filtered ++ c.filtered }
    | none => { batch := st.batch, received := st.received, errs := st.errs, filtered := st.filtered, lost := st.lost, rest := ts }

/-! one-turn facts: flat case splits over `classify` -/

theorem turn_next_set (s : TS) (t : Turn) (s' : TS) (h : (turn s t).next = some s') :
    s'.set = s.set ++ (turn s t).received.filter accepted ∧ (s.set ≠ [] → s'.last = s.last) := by
  have sp := classify_spec s t
  unfold turn at h ⊢
  cases hk : classify s t <;> simp only [hk, apply, KindSpec] at h sp ⊢
  all_goals first
    | (simp at h; done)
    | (simp only [Option.some.injEq] at h; subst h; simp_all [newLast])

theorem turn_batch (s : TS) (t : Turn) (b at_ l) (h : (turn s t).batch = some (b, at_, l)) :
    b = s.set ++ (turn s t).received.filter accepted ∧ b ≠ [] ∧ (turn s t).next = none := by
  have sp := classify_spec s t
  unfold turn at h ⊢
  cases hk : classify s t <;> simp only [hk, apply, KindSpec] at h sp ⊢
  all_goals first
    | (simp at h; done)
    | (simp only [Option.some.injEq, Prod.mk.injEq] at h; obtain ⟨rfl, rfl, rfl⟩ := h; simp_all [newLast])

/-- C02 lower bound, one turn: a batch without urgent events leaves no earlier than last + throttle,
    for the throttle value read in that turn -/
theorem turn_lower_bound (s : TS) (t : Turn) (b at_ l) (h : (turn s t).batch = some (b, at_, l))
    (hnu : ∀ e ∈ b, e.prio ≠ .urgent) :
    (t.throttle1 ≤ at_ - l ∨ t.throttle2 ≤ at_ - l) ∧ (s.set ≠ [] → l = s.last) := by
  have sp := classify_spec s t
  unfold turn at h
  cases hk : classify s t <;> simp only [hk, apply, KindSpec] at h sp
  all_goals first
    | (simp at h; done)
    | (simp only [Option.some.injEq, Prod.mk.injEq] at h; obtain ⟨rfl, rfl, rfl⟩ := h; simp_all [newLast])

/-- C01 conservation for one call -/
theorem collect_conserve (s : TS) (ts : List Turn) (b at_ l)
    (h : (collect s ts).batch = some (b, at_, l)) :
    b = s.set ++ (collect s ts).received.filter accepted ∧ b ≠ [] := by
  induction ts generalizing s with
  | nil => simp [collect] at h
  | cons t ts ih =>
    unfold collect at h ⊢
    cases hn : (turn s t).next with
    | some s' =>
      simp only [hn] at h ⊢
      obtain ⟨h1, h2⟩ := ih s' h
      obtain ⟨h3, _⟩ := turn_next_set s t s' hn
      refine ⟨?_, h2⟩
      rw [h1, h3]; simp [List.filter_append]
    | none =>
      simp only [hn] at h ⊢
      obtain ⟨h1, h2, _⟩ := turn_batch s t b at_ l h
      exact ⟨h1, h2⟩

/-- every event handed to the filter is non-urgent and non-empty; every error comes from the filter -/
theorem turn_filtered (s : TS) (t : Turn) :
    (∀ e ∈ (turn s t).filtered, bypass e = false) ∧ (∀ e ∈ (turn s t).errs, e.verdict = .err ∧ accepted e = false) := by
  have sp := classify_spec s t
  unfold turn
  cases hk : classify s t <;> simp only [hk, apply, KindSpec] at sp ⊢ <;> simp_all
  all_goals (split <;> simp_all)

#print axioms collect_conserve
#print axioms turn_lower_bound
end Sp.Th
