import Wx.Glob.IgnoreFilter
import Wx.Glob.C03
/-! The validated string-level filter, re-expressed through the component-keyed lookup loop that the
    C03 theorems are about (`goOld` = today, `go` = repaired). -/
namespace Sp.IF
open Sp.Glob Sp.Pfx Sp.C03

def Filter.keys (f : Filter) : List CPath := f.nodes.map (fun n => splitComps n.key)

def resOpt : Res → Option Res
  | .none => none
  | r => some r

def Filter.ev (f : Filter) (inOrigin : Bool) (path : Str) (isDir : Bool) (k : CPath) : Option Res :=
  match f.nodes.find? (fun n => splitComps n.key == k) with
  | some n => resOpt (nodeMatch n inOrigin path isDir)
  | none => none

/-- `match_path` through the C03 loop; `fix = false` is the code as it is -/
def Filter.matchPathC (fix : Bool) (f : Filter) (path : Str) (isDir : Bool) : Res :=
  let inOrigin := compPrefix f.origin path
  let p := splitComps path
  let r := if fix then go f.keys (f.ev inOrigin path isDir) p (p.length + 1) (body p)
           else goOld f.keys (f.ev inOrigin path isDir) (p.length + 1) (body p)
  r.getD .none

/-- `match_path` as it is in /repo now (F12 repaired) -/
def Filter.matchFix (f : Filter) (path : Str) (isDir : Bool) : Res := f.matchPathC true path isDir

/-- `check_dir` on the repaired `match_path`: true = not ignored -/
def Filter.checkDirFix (f : Filter) (path : Str) : Bool :=
  match f.matchFix path true with
  | .none => true
  | .ignore _ fr => !(compPrefix fr path)
  | .whitelist _ _ => true

/-- and the specification through `spec` -/
def Filter.specMatchC (f : Filter) (path : Str) (isDir : Bool) : Res :=
  (spec f.keys (f.ev (compPrefix f.origin path) path isDir) (splitComps path)).getD .none

end Sp.IF

namespace Sp.IF
open Sp.Glob Sp.Pfx Sp.C03

theorem splitAux_ok : ∀ (s cur : Str), (∀ c ∈ cur, c ≠ '/') → ∀ w ∈ splitAux cur s, okComp w
  | [], cur, hc, w, hw => by
    unfold splitAux at hw
    split at hw
    · cases hw
    · next hne =>
      simp only [List.mem_singleton] at hw; subst hw
      exact ⟨by simpa using hne, fun h => hc '/' (List.mem_reverse.1 h) rfl⟩
  | c :: r, cur, hc, w, hw => by
    unfold splitAux at hw
    split at hw
    · split at hw
      · exact splitAux_ok r [] (by simp) w hw
      · next hne =>
        rcases List.mem_cons.1 hw with rfl | hw
        · exact ⟨by simpa using hne, fun h => hc '/' (List.mem_reverse.1 h) rfl⟩
        · exact splitAux_ok r [] (by simp) w hw
    · next hns =>
      refine splitAux_ok r (c :: cur) ?_ w hw
      intro d hd
      rcases List.mem_cons.1 hd with rfl | hd
      · exact hns
      · exact hc d hd

theorem splitComps_ok (s : Str) : okPath (splitComps s) := fun w hw => splitAux_ok s [] (by simp) w hw

/-- **C03 (refinement, on the validated model)** — with the repaired lookup, `match_path` is the
    nearest-component-ancestor-first specification, for every filter, path and file type -/
theorem matchPathC_eq_spec (f : Filter) (path : Str) (isDir : Bool) :
    f.matchPathC true path isDir = f.specMatchC path isDir := by
  unfold Filter.matchPathC Filter.specMatchC
  simp only [if_true]
  rw [go_eq_spec]
  · intro k hk
    simp only [Filter.keys, List.mem_map] at hk
    obtain ⟨n, _, rfl⟩ := hk
    exact splitComps_ok _
  · exact splitComps_ok _

#print axioms matchPathC_eq_spec
end Sp.IF
