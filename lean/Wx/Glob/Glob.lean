/-! Spike: globset (literal_separator) + ignore::gitignore model over List Char. -/
namespace Sp.Glob

inductive Tok where
  | lit (c : Char) | any | star | recPrefix | recSuffix | recMid
  | cls (neg : Bool) (ranges : List (Char × Char))
  deriving Repr, DecidableEq

def isSep (c : Char) : Bool := c == '/'

/-- parse a class body after '[' ; returns token and rest, or none on error -/
def parseClass (cs : List Char) : Option (Tok × List Char) :=
  let (neg, cs) := match cs with
    | '!' :: r => (true, r) | '^' :: r => (true, r) | r => (false, r)
  let rec go (first : Bool) (inRange : Bool) (rs : List (Char × Char)) (cs : List Char) : Option (Tok × List Char) :=
    match cs with
    | [] => none
    | ']' :: r => if first then go false false ((']', ']') :: rs) r
                  else
                    let rs := if inRange then (('-','-') :: rs) else rs
                    some (.cls neg rs.reverse, r)
    | '-' :: r =>
      if first then go false false (('-','-') :: rs) r
      else if inRange then
        match rs with
        | (a, _) :: t => go false false ((a, '-') :: t) r
        | [] => none
      else go false true rs r
    | c :: r =>
      if inRange then
        match rs with
        | (a, _) :: t => if c < a then none else go false false ((a, c) :: t) r
        | [] => none
      else go false false ((c, c) :: rs) r
  go true false [] cs

/-- globset Parser (no alternates), backslash_escape = true. The loop takes fuel; `parse` gives it `length + 1`, which always
    suffices (every step consumes a character or ends the input: `parseGo_fuel`, Wx/Glob/GlobThm.lean) -/
def parseGo : Nat → Option Char → List Tok → List Char → Option (List Tok)
  | 0, _, _, _ => none
  | fuel + 1, prev, acc, cs =>
    match cs with
    | [] => some acc.reverse
    | '?' :: r => parseGo fuel (some '?') (.any :: acc) r
    | '[' :: r => match parseClass r with
        | some (t, r') => parseGo fuel (some ']') (t :: acc) r'
        | none => none
    | '\\' :: r => match r with
        | [] => none
        | c :: r' => parseGo fuel (some c) (.lit c :: acc) r'
    | '*' :: r =>
      match r with
      | '*' :: r2 =>
        -- double star
        if acc.isEmpty then
          match r2 with
          | [] => parseGo fuel (some '*') (.recPrefix :: acc) []
          | c :: r3 => if isSep c then parseGo fuel (some c) (.recPrefix :: acc) r3
                       else parseGo fuel (some '*') (.star :: .star :: acc) r2
        else if !(prev.map isSep |>.getD false) then
          parseGo fuel (some '*') (.star :: .star :: acc) r2
        else
          match r2 with
          | [] =>
            -- suffix
            match acc with
            | .recPrefix :: t => parseGo fuel (some '*') (.recPrefix :: t) []
            | .recSuffix :: t => parseGo fuel (some '*') (.recSuffix :: t) []
            | _ :: t => parseGo fuel (some '*') (.recSuffix :: t) []
            | [] => none
          | c :: r3 =>
            if isSep c then
              match acc with
              | .recPrefix :: t => parseGo fuel (some c) (.recPrefix :: t) r3
              | .recSuffix :: t => parseGo fuel (some c) (.recSuffix :: t) r3
              | _ :: t => parseGo fuel (some c) (.recMid :: t) r3
              | [] => none
            else parseGo fuel (some '*') (.star :: .star :: acc) r2
      | _ => parseGo fuel (some '*') (.star :: acc) r
    | c :: r => parseGo fuel (some c) (.lit c :: acc) r

def parse (cs : List Char) : Option (List Tok) := parseGo (cs.length + 1) none [] cs

def inCls (neg : Bool) (rs : List (Char × Char)) (c : Char) : Bool :=
  let hit := rs.any (fun (a, b) => a ≤ c && c ≤ b)
  if neg then !hit else hit

/-- all suffixes of s (s itself first) -/
def suffixes : List Char → List (List Char)
  | [] => [[]]
  | c :: r => (c :: r) :: suffixes r

/-- `[^/]*` then continuation -/
def starGo (k : List Char → Bool) : List Char → Bool
  | [] => k []
  | d :: r => k (d :: r) || (d != '/' && starGo k r)

/-- one token followed by continuation `k` (the match of the remaining tokens) -/
def matchTok (t : Tok) (k : List Char → Bool) (s : List Char) : Bool :=
  match t with
  | .lit c => match s with | d :: r => c == d && k r | [] => false
  | .any => match s with | d :: r => d != '/' && k r | [] => false
  | .cls n rs => match s with | d :: r => inCls n rs d && k r | [] => false
  | .star => starGo k s
  | .recPrefix =>   -- (?:/?|.*/)
      k s || (suffixes s).any (fun suf => match suf with | '/' :: r => k r | _ => false)
  | .recSuffix =>   -- /.*
      match s with
      | '/' :: r => (suffixes r).any k
      | _ => false
  | .recMid =>      -- (?:/|/.*/)
      match s with
      | '/' :: r => k r || (suffixes r).any (fun suf => match suf with | '/' :: r2 => k r2 | _ => false)
      | _ => false

/-- anchored match of tokens against the whole string; structural on the token list -/
def mtchToks : List Tok → List Char → Bool
  | [] => fun s => s.isEmpty
  | t :: ts => fun s => matchTok t (mtchToks ts) s

/-- whole-glob match with globset's special case: a glob that is just `**` matches everything -/
def mtch (ts : List Tok) (s : List Char) : Bool :=
  if ts == [.recPrefix] then true else mtchToks ts s

/-! ignore::gitignore -/

structure GGlob where
  original : List Char
  toks : List Tok
  isWhitelist : Bool
  isOnlyDir : Bool
  deriving Repr

def trimRight (l : List Char) : List Char := (l.reverse.dropWhile Char.isWhitespace).reverse

def endsWith (l suf : List Char) : Bool := l.reverse.take suf.length == suf.reverse
def startsWith (l pre : List Char) : Bool := l.take pre.length == pre

/-- `!` and a leading `/` (or an escaped `\\!` / `\\#`): (is a negation, is anchored, the rest) -/
def linePrefix (line : List Char) : Bool × Bool × List Char :=
  if startsWith line ['\\', '!'] || startsWith line ['\\', '#'] then
    let l := line.drop 1
    (false, l.head? == some '/', l)
  else
    let wl := startsWith line ['!']
    let l := if wl then line.drop 1 else line
    let abs := startsWith l ['/']
    (wl, abs, if abs then l.drop 1 else l)

/-- a trailing `/`: (matches directories only, the rest) -/
def lineDir (line : List Char) : Bool × List Char :=
  if line.getLast? == some '/' then
    let l := line.dropLast
    (true, if l.getLast? == some '\\' then l.dropLast else l)
  else (false, line)

/-- the glob text handed to the parser: a slash-free unanchored pattern gets `**/` in front, a trailing `/**` becomes `/**/*` -/
def lineGlob (abs : Bool) (line : List Char) : List Char :=
  let actual :=
    if !abs && !line.any (· == '/') then
      if startsWith line ['*','*','/'] || line == ['*','*'] then line else ['*','*','/'] ++ line
    else line
  if endsWith actual ['/','*','*'] then actual ++ ['/','*'] else actual

/-- GitignoreBuilder::add_line; `none` = line skipped (comment/empty), `some none` = glob error -/
def addLine (line : List Char) : Option (Option GGlob) :=
  if startsWith line ['#'] then none else
  let line := if endsWith line ['\\', ' '] then line else trimRight line
  if line.isEmpty then none else
  let pre := linePrefix line
  let dir := lineDir pre.2.2
  match parse (lineGlob pre.2.1 dir.2) with
  | some toks => some (some ⟨line, toks, pre.1, dir.1⟩)
  | none => some none

inductive M where | none | ignore (i : Nat) | whitelist (i : Nat) deriving Repr, DecidableEq

/-- matched_stripped: last matching glob wins, only-dir globs need is_dir -/
def matchedStripped (globs : List GGlob) (cand : List Char) (isDir : Bool) : M :=
  let idx := (List.range globs.length).reverse.find? (fun i =>
    match globs[i]? with
    | some g => mtch g.toks cand && (!g.isOnlyDir || isDir)
    | none => false)
  match idx with
  | some i => match globs[i]? with
    | some g => if g.isWhitelist then .whitelist i else .ignore i
    | none => .none
  | none => .none

/-- byte-wise strip as in ignore::gitignore::Gitignore::strip (unix) -/
def strip (root path : List Char) : List Char :=
  let path := if startsWith path ['.','/'] then path.drop 2 else path
  if root != ['.'] && path.any (· == '/') then
    if startsWith path root then
      let p := path.drop root.length
      if startsWith p ['/'] then p.drop 1 else p
    else path
  else path

def parentOf (p : List Char) : Option (List Char) :=
  -- std::path::Path::parent on a relative or absolute unix path string (no trailing slashes assumed)
  if p.isEmpty then none else
  let r := p.reverse
  let afterName := r.dropWhile (· != '/')
  match afterName with
  | [] => some []                       -- "name" -> ""
  | _ :: rest =>
    let rest := rest.dropWhile (· == '/')
    if rest.isEmpty then (if p == ['/'] then none else some ['/']) else some rest.reverse

def matched (root : List Char) (globs : List GGlob) (path : List Char) (isDir : Bool) : M :=
  if globs.isEmpty then .none else matchedStripped globs (strip root path) isDir

def matchedOrParents (root : List Char) (globs : List GGlob) (path : List Char) (isDir : Bool) : M :=
  if globs.isEmpty then .none else
  let p := strip root path
  match matchedStripped globs p isDir with
  | .none =>
    let rec up (fuel : Nat) (p : List Char) : M :=
      match fuel with
      | 0 => .none
      | f + 1 => match parentOf p with
        | none => .none
        | some par => match matchedStripped globs par true with
          | .none => up f par
          | m => m
    up p.length p
  | m => m

end Sp.Glob
