import Wx.Glob.C11
import Wx.Glob.Globset
/-! C11: the abstract decision of `Wx/Glob/C11.lean` instantiated with the concrete glob matcher, the
    concrete ignore-file layer (repaired C03 filter) and `Path::extension`. `checkEventC` is the function
    the driver runs against the real `GlobsetFilterer::check_event`, so every theorem of `Sp.C11`
    holds — by instantiation — for the very function the correspondence stream validates. -/
namespace Sp.GS
open Sp.IF Sp.Glob

/-- does this one compiled glob match the path (stripped relative to `root`), only-dir rule included -/
def oneMatch (root : Str) (g : GGlob) (path : Str) (isDir : Bool) : Bool :=
  mtch g.toks (strip root path) && (!g.isOnlyDir || isDir)

/-- the 1.x compatibility candidate `origin//rel` -/
def rebased (origin path : Str) : Str :=
  let based := (splitComps path).drop (splitComps origin).length
  origin ++ ['/', '/'] ++ (String.intercalate "/" (based.map String.ofList)).toList

def table (g : GF) : List GGlob := g.filters ++ g.ignores

def envOf (g : GF) : Sp.C11.Env where
  mt := fun x p => match (table g)[x.id]? with | some gg => oneMatch g.origin gg p.path p.isDir | none => false
  mtRebased := fun x p => match (table g)[x.id]? with | some gg => oneMatch g.origin gg (rebased g.origin p.path) p.isDir | none => false
  inOrigin := fun p => compPrefix g.origin p.path
  whitelisted := fun p => g.whitelist.any (fun w => splitComps w == splitComps p.path)
  igfPass := fun ps => igfCheck g.igf (ps.map (fun p => ({ path := p.path, isDir := p.isDir } : PTag)))
  ext := fun p => extension p.path

def idsFrom (start : Nat) : List GGlob → List Sp.C11.G
  | [] => []
  | g :: r => ⟨start, g.isWhitelist⟩ :: idsFrom (start + 1) r

def cfgOf (g : GF) : Sp.C11.Cfg where
  filters := idsFrom 0 g.filters
  ignores := idsFrom g.filters.length g.ignores
  exts := g.exts

/-- `GlobsetFilterer::check_event`, as an instance of the abstract decision -/
def checkEventC (g : GF) (paths : List PTag) : Bool :=
  Sp.C11.checkEvent (envOf g) (cfgOf g) (paths.map (fun p => ({ path := p.path, isDir := p.isDir } : Sp.C11.PTag)))

/-! The property's clauses for the concrete function (instances of the abstract theorems). -/

theorem c11_no_paths (g : GF) : checkEventC g [] = true := by
  unfold checkEventC
  exact Sp.C11.no_paths_pass _ _ (by simp [envOf, igfCheck])

theorem c11_whitelisted (g : GF) (ps : List PTag) (p : PTag) (hp : p ∈ ps)
    (hw : g.whitelist.any (fun w => splitComps w == splitComps p.path) = true) : checkEventC g ps = true := by
  unfold checkEventC
  exact Sp.C11.whitelisted_pass _ _ _ ⟨p.path, p.isDir⟩ (List.mem_map.2 ⟨p, hp, rfl⟩) (by simpa [envOf] using hw)

theorem c11_empty_config (origin : Str) (wl : List Str) (f : Filter) (ps : List PTag)
    (hi : igfCheck f ps = true) :
    checkEventC { origin := origin, filters := [], ignores := [], whitelist := wl, igf := f, exts := [] } ps = true := by
  unfold checkEventC
  have : cfgOf { origin := origin, filters := [], ignores := [], whitelist := wl, igf := f, exts := [] } = ⟨[], [], []⟩ := rfl
  rw [this]
  apply Sp.C11.empty_passes
  simp only [envOf, List.map_map]
  have : (fun p : PTag => ({ path := p.path, isDir := p.isDir } : PTag)) = id := by funext p; cases p; rfl
  simpa [Function.comp_def, this] using hi

#print axioms c11_empty_config
end Sp.GS
