import Wx.Glob.Glob
/-! Spike: ignore-files IgnoreFilter (new / add_file / add_globs / match_path / check_dir) over strings. -/
namespace Sp.IF
open Sp.Glob

abbrev Str := List Char

/-- one compiled node of the trie -/
structure Node where
  key : Str            -- display string of applies_in ("/" for global)
  root : Str           -- GitignoreBuilder root (origin for the "/" node created by `new`)
  globs : List (GGlob × Str)   -- glob with its `from` (the applies_in it was added with)
  deriving Repr

structure Filter where
  origin : Str
  nodes : List Node
  deriving Repr

/-- split at '/' dropping empty pieces (what `Path::components` yields for the normal components) -/
def splitAux : Str → Str → List Str
  | cur, [] => if cur.isEmpty then [] else [cur.reverse]
  | cur, c :: r => if c = '/' then (if cur.isEmpty then splitAux [] r else cur.reverse :: splitAux [] r) else splitAux (c :: cur) r

def splitComps (p : Str) : List Str := splitAux [] p

/-- component-wise `Path::starts_with` / `strip_prefix(..).is_ok()` -/
def compPrefix (pre p : Str) : Bool :=
  let a := splitComps pre; let b := splitComps p
  a.length ≤ b.length && b.take a.length == a

def addLines (globs : List (GGlob × Str)) (from_ : Str) (lines : List Str) : Option (List (GGlob × Str)) :=
  lines.foldl (fun acc l =>
    match acc with
    | none => none
    | some gs =>
      if l.isEmpty || l.head? == some '#' then some gs else
      match addLine l with
      | none => some gs
      | some none => none
      | some (some g) => some (gs ++ [(g, from_)])) (some globs)

def Filter.find (f : Filter) (k : Str) : Option Node := f.nodes.find? (·.key == k)
def Filter.put (f : Filter) (n : Node) : Filter :=
  if f.nodes.any (·.key == n.key) then { f with nodes := f.nodes.map (fun x => if x.key == n.key then n else x) }
  else { f with nodes := f.nodes ++ [n] }

/-- IgnoreFilter::new (files in listed order; F13 aside) -/
def Filter.new (origin : Str) (files : List (Option Str × List Str)) : Option Filter :=
  let f0 : Filter := { origin := origin, nodes := [{ key := ['/'], root := origin, globs := [] }] }
  files.foldl (fun acc (ai, lines) =>
    match acc with
    | none => none
    | some f =>
      let k := ai.getD ['/']
      let base : Node := (f.find k).getD { key := k, root := k, globs := [] }
      match addLines base.globs k lines with
      | none => none
      | some gs => some (f.put { base with globs := gs })) (some f0)

/-- add_file / add_globs on an existing filter (new node rooted at applies_in) -/
def Filter.add (f : Filter) (ai : Option Str) (lines : List Str) : Option Filter :=
  let k := ai.getD ['/']
  let base : Node := (f.find k).getD { key := k, root := k, globs := [] }
  match addLines base.globs k lines with
  | none => none
  | some gs => some (f.put { base with globs := gs })

/-- radix_trie get_ancestor: the longest key that is a string prefix of `s` -/
def Filter.ancestor (f : Filter) (s : Str) : Option Node :=
  f.nodes.foldl (fun best n =>
    if startsWith s n.key then
      match best with
      | some b => if b.key.length < n.key.length then some n else best
      | none => some n
    else best) none

inductive Res | none | ignore (orig from_ : Str) | whitelist (orig from_ : Str) deriving Repr, DecidableEq

def nodeMatch (n : Node) (inOrigin : Bool) (path : Str) (isDir : Bool) : Res :=
  let gs := n.globs.map (·.1)
  let m := if inOrigin then matchedOrParents n.root gs path isDir else matched n.root gs path isDir
  match m with
  | .none => .none
  | .ignore i => match n.globs[i]? with | some (g, fr) => .ignore g.original fr | none => .none
  | .whitelist i => match n.globs[i]? with | some (g, fr) => .whitelist g.original fr | none => .none

/-- IgnoreFilter::match_path -/
def Filter.matchPath (f : Filter) (path : Str) (isDir : Bool) : Res :=
  let inOrigin := compPrefix f.origin path
  let rec go (fuel : Nat) (search : Str) : Res :=
    match fuel with
    | 0 => .none
    | fuel + 1 =>
      match f.ancestor search with
      | none => .none
      | some n =>
        match nodeMatch n inOrigin path isDir with
        | .none =>
          match parentOf n.key with
          | some p => go fuel p
          | none => .none
        | r => r
  go (path.length + 2) path

/-- IgnoreFilter::check_dir: true = not ignored -/
def Filter.checkDir (f : Filter) (path : Str) : Bool :=
  match f.matchPath path true with
  | .none => true
  | .ignore _ fr => !(compPrefix fr path)
  | .whitelist _ _ => true

/-- C03 spec: git-style evaluation over the COMPONENT-wise ancestors, nearest first, global last -/
def Filter.specMatch (f : Filter) (path : Str) (isDir : Bool) : Res :=
  let inOrigin := compPrefix f.origin path
  let anc := f.nodes.filter (fun n => n.key == ['/'] || compPrefix n.key path)
  let sorted := (anc.toArray.qsort (fun a b => a.key.length > b.key.length)).toList
  sorted.foldl (fun acc n => match acc with | .none => nodeMatch n inOrigin path isDir | r => r) .none

/-- the case the property leaves unspecified: a directory against an ignore file stored in it -/
def Filter.unspecified (f : Filter) (path : Str) (isDir : Bool) : Bool :=
  isDir && f.nodes.any (fun n => n.key != ['/'] && splitComps n.key == splitComps path)

end Sp.IF
