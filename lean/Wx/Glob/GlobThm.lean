import Wx.Glob.Glob
/-! What the glob model means on the pattern grammar the properties name (C03 / C11: literal names, `*.ext`, `/rooted`,
    `a/b`, `**/x`, `x/**`): the parser's output for each shape and an exact characterisation of the strings the resulting
    token list matches. The model itself is tied to the real `ignore` / `globset` crates by the glob stream; these theorems
    say that what the stream validates IS the documented rule, for every name, extension and candidate path — not for the
    sampled ones. Also: the parser's fuel always suffices. -/
namespace Sp.Glob

/-- characters without a meaning of their own in a glob -/
def plain (c : Char) : Bool := c != '?' && c != '[' && c != '\\' && c != '*'

def lits (s : List Char) : List Tok := s.map Tok.lit

/-! ### the parser on literal runs -/

theorem parseGo_plain_cons {fuel : Nat} {prev : Option Char} {acc : List Tok} {c : Char} {r : List Char} (hc : plain c = true) :
    parseGo (fuel + 1) prev acc (c :: r) = parseGo fuel (some c) (.lit c :: acc) r := by
  simp only [plain, Bool.and_eq_true, bne_iff_ne, ne_eq] at hc
  obtain ⟨⟨⟨h1, h2⟩, h3⟩, h4⟩ := hc
  conv => lhs; unfold parseGo
  split <;> simp_all

/-- a run of plain characters becomes that many literal tokens; the parser continues behind it -/
theorem parseGo_lits (s : List Char) (hs : ∀ c ∈ s, plain c = true) :
    ∀ (fuel : Nat) (prev : Option Char) (acc : List Tok) (rest : List Char),
      parseGo (fuel + s.length) prev acc (s ++ rest) =
        parseGo fuel (match s.getLast? with | some c => some c | none => prev) ((lits s).reverse ++ acc) rest := by
  induction s with
  | nil => intro fuel prev acc rest; simp [lits]
  | cons c s ih =>
    intro fuel prev acc rest
    have hc := hs c List.mem_cons_self
    have hs' : ∀ d ∈ s, plain d = true := fun d hd => hs d (List.mem_cons_of_mem _ hd)
    rw [List.length_cons, ← Nat.add_assoc, List.cons_append, parseGo_plain_cons hc, ih hs']
    congr 1
    · cases s with
      | nil => rfl
      | cons d s =>
        cases h : (d :: s).getLast? with
        | none => simp at h
        | some x => simp [List.getLast?_cons_cons, h]
    · simp [lits]

theorem parseGo_nil (fuel : Nat) (prev : Option Char) (acc : List Tok) : parseGo (fuel + 1) prev acc [] = some acc.reverse := by
  unfold parseGo; rfl

/-- a pattern of plain characters is matched literally -/
theorem parse_plain (s : List Char) (hs : ∀ c ∈ s, plain c = true) : parse s = some (lits s) := by
  unfold parse
  have := parseGo_lits s hs 1 none [] []
  simp only [List.append_nil] at this
  rw [Nat.add_comm, this, parseGo_nil]
  simp [lits]

/-- `**/name` (what a slash-free gitignore line `name` is turned into) -/
theorem parse_recPrefix_plain (s : List Char) (hs : ∀ c ∈ s, plain c = true) :
    parse ('*' :: '*' :: '/' :: s) = some (.recPrefix :: lits s) := by
  unfold parse
  have h := parseGo_lits s hs 3 (some '/') [.recPrefix] []
  simp only [List.append_nil] at h
  have e : ('*' :: '*' :: '/' :: s).length + 1 = (3 + s.length) + 1 := by simp only [List.length_cons]; omega
  rw [e]
  conv => lhs; unfold parseGo
  simp only [List.isEmpty_nil, if_true, isSep, beq_self_eq_true]
  rw [h, parseGo_nil]
  simp [lits]

/-- `**/*.ext` (the gitignore line `*.ext`) -/
theorem parse_star_ext (e : List Char) (he : ∀ c ∈ e, plain c = true) :
    parse ('*' :: '*' :: '/' :: '*' :: '.' :: e) = some (.recPrefix :: .star :: lits ('.' :: e)) := by
  unfold parse
  have hd : ∀ c ∈ '.' :: e, plain c = true := by
    intro c hc; rcases List.mem_cons.1 hc with rfl | hc
    · decide
    · exact he c hc
  have h := parseGo_lits ('.' :: e) hd 3 (some '*') [.star, .recPrefix] []
  simp only [List.append_nil] at h
  have e1 : ('*' :: '*' :: '/' :: '*' :: '.' :: e).length + 1 = ((3 + ('.' :: e).length) + 1) + 1 := by simp only [List.length_cons]; omega
  rw [e1]
  conv => lhs; unfold parseGo
  simp only [List.isEmpty_nil, if_true, isSep, beq_self_eq_true]
  conv => lhs; unfold parseGo
  simp only []
  rw [h, parseGo_nil]
  simp [lits]

theorem plain_slash : plain '/' = true := by decide

/-! ### what token lists match -/

theorem mtchToks_lits (s t : List Char) : mtchToks (lits s) t = (t == s) := by
  induction s generalizing t with
  | nil => cases t <;> simp [lits, mtchToks]
  | cons c s ih =>
    cases t with
    | nil => simp [lits, mtchToks, matchTok]
    | cons d t =>
      have := ih t
      simp only [lits, List.map_cons, mtchToks, matchTok] at this ⊢
      rw [this]
      by_cases h : c = d
      · subst h; simp
      · have h' : ¬ d = c := fun e => h e.symm
        have b1 : (c == d) = false := by simpa using h
        have b2 : (d == c) = false := by simpa using h'
        simp [b1, b2]

theorem mtchToks_lits_append (s : List Char) (ts : List Tok) (t : List Char) :
    mtchToks (lits s ++ ts) t = (startsWith t s && mtchToks ts (t.drop s.length)) := by
  induction s generalizing t with
  | nil => simp [lits, startsWith]
  | cons c s ih =>
    cases t with
    | nil => simp [lits, mtchToks, matchTok, startsWith]
    | cons d t =>
      have := ih t
      simp only [lits, List.map_cons, List.cons_append, mtchToks, matchTok, startsWith, List.length_cons, List.take_succ_cons,
        List.drop_succ_cons] at this ⊢
      rw [this]
      by_cases h : c = d
      · subst h; simp
      · have h' : ¬ d = c := fun e => h e.symm
        have b1 : (c == d) = false := by simpa using h
        have b2 : (d == c) = false := by simpa using h'
        simp [b1, b2]

theorem mem_suffixes {s suf : List Char} : suf ∈ suffixes s ↔ ∃ pre, s = pre ++ suf := by
  induction s with
  | nil =>
    simp only [suffixes, List.mem_singleton]
    constructor
    · rintro rfl; exact ⟨[], rfl⟩
    · rintro ⟨pre, h⟩
      have := congrArg List.length h
      simp at this
      cases suf with
      | nil => rfl
      | cons a b => simp at this
  | cons c r ih =>
    simp only [suffixes, List.mem_cons]
    constructor
    · rintro (rfl | h)
      · exact ⟨[], rfl⟩
      · obtain ⟨pre, hp⟩ := ih.1 h
        exact ⟨c :: pre, by rw [hp]; rfl⟩
    · rintro ⟨pre, hp⟩
      cases pre with
      | nil => left; exact hp.symm
      | cons a pre =>
        right
        simp only [List.cons_append, List.cons.injEq] at hp
        exact ih.2 ⟨pre, hp.2⟩

/-- `**/` in front: the rest matches the whole string or what follows some `/` -/
theorem mtchToks_recPrefix (ts : List Tok) (s : List Char) :
    mtchToks (.recPrefix :: ts) s = true ↔ mtchToks ts s = true ∨ ∃ pre r, s = pre ++ '/' :: r ∧ mtchToks ts r = true := by
  simp only [mtchToks, matchTok, Bool.or_eq_true, List.any_eq_true]
  constructor
  · rintro (h | ⟨suf, hsuf, hm⟩)
    · exact Or.inl h
    · right
      obtain ⟨pre, hp⟩ := mem_suffixes.1 hsuf
      cases suf with
      | nil => simp at hm
      | cons a r =>
        by_cases ha : a = '/'
        · subst ha; exact ⟨pre, r, hp, hm⟩
        · split at hm
          · next heq => simp only [List.cons.injEq] at heq; exact absurd heq.1 ha
          · cases hm
  · rintro (h | ⟨pre, r, hp, hm⟩)
    · exact Or.inl h
    · exact Or.inr ⟨'/' :: r, mem_suffixes.2 ⟨pre, hp⟩, hm⟩

/-- **a slash-free name** (`name`, `**/name`): matches exactly the paths whose last component is `name` — the whole
    candidate, or everything behind one of its slashes -/
theorem recPrefix_lits_iff (name s : List Char) :
    mtchToks (.recPrefix :: lits name) s = true ↔ s = name ∨ ∃ pre, s = pre ++ '/' :: name := by
  rw [mtchToks_recPrefix]
  simp only [mtchToks_lits, beq_iff_eq]
  constructor
  · rintro (h | ⟨pre, r, hp, rfl⟩)
    · exact Or.inl h
    · exact Or.inr ⟨pre, hp⟩
  · rintro (h | ⟨pre, hp⟩)
    · exact Or.inl h
    · exact Or.inr ⟨pre, name, hp, rfl⟩

/-- `*` = a run of non-separators, then the continuation -/
theorem starGo_iff (k : List Char → Bool) (s : List Char) :
    starGo k s = true ↔ ∃ base rest, s = base ++ rest ∧ (∀ c ∈ base, c ≠ '/') ∧ k rest = true := by
  induction s with
  | nil =>
    simp only [starGo]
    constructor
    · intro h; exact ⟨[], [], rfl, by simp, h⟩
    · rintro ⟨base, rest, h, _, hk⟩
      have hb : base = [] ∧ rest = [] := by simpa using h.symm
      rw [hb.2] at hk; exact hk
  | cons d r ih =>
    simp only [starGo, Bool.or_eq_true, Bool.and_eq_true, bne_iff_ne, ne_eq]
    constructor
    · rintro (h | ⟨hd, h⟩)
      · exact ⟨[], d :: r, rfl, by simp, h⟩
      · obtain ⟨base, rest, hs, hb, hk⟩ := ih.1 h
        refine ⟨d :: base, rest, by rw [hs]; rfl, ?_, hk⟩
        intro c hc; rcases List.mem_cons.1 hc with rfl | hc
        · exact hd
        · exact hb c hc
    · rintro ⟨base, rest, hs, hb, hk⟩
      cases base with
      | nil => left; simp only [List.nil_append] at hs; rw [hs]; exact hk
      | cons b base =>
        right
        simp only [List.cons_append, List.cons.injEq] at hs
        obtain ⟨rfl, hs⟩ := hs
        exact ⟨hb d List.mem_cons_self, ih.2 ⟨base, rest, hs, fun c hc => hb c (List.mem_cons_of_mem _ hc), hk⟩⟩

/-- **`*.ext`** (`**/*.ext`): matches exactly the paths whose last component ends with `.ext` — a prefix that is empty or
    ends at a slash, a slash-free stem, the extension -/
theorem star_ext_iff (ext s : List Char) :
    mtchToks (.recPrefix :: .star :: lits ext) s = true ↔
      ∃ pre stem, (s = stem ++ ext ∨ s = pre ++ '/' :: (stem ++ ext)) ∧ ∀ c ∈ stem, c ≠ '/' := by
  have star : ∀ t, mtchToks (.star :: lits ext) t = true ↔ ∃ stem, t = stem ++ ext ∧ ∀ c ∈ stem, c ≠ '/' := by
    intro t
    show starGo (mtchToks (lits ext)) t = true ↔ _
    rw [starGo_iff]
    constructor
    · rintro ⟨base, rest, ht, hb, hk⟩
      rw [mtchToks_lits, beq_iff_eq] at hk
      exact ⟨base, by rw [ht, hk], hb⟩
    · rintro ⟨stem, ht, hb⟩
      exact ⟨stem, ext, ht, hb, by rw [mtchToks_lits]; simp⟩
  rw [mtchToks_recPrefix]
  constructor
  · rintro (h | ⟨pre, r, hp, h⟩)
    · obtain ⟨stem, ht, hb⟩ := (star s).1 h
      exact ⟨[], stem, Or.inl ht, hb⟩
    · obtain ⟨stem, ht, hb⟩ := (star r).1 h
      exact ⟨pre, stem, Or.inr (by rw [hp, ht]), hb⟩
  · rintro ⟨pre, stem, h | h, hb⟩
    · exact Or.inl ((star s).2 ⟨stem, h, hb⟩)
    · exact Or.inr ⟨pre, stem ++ ext, h, (star _).2 ⟨stem, rfl, hb⟩⟩

/-- **a rooted or slash-containing literal** (`/rooted`, `a/b`): matches that relative path and nothing else -/
theorem lits_iff (p s : List Char) : mtchToks (lits p) s = true ↔ s = p := by
  rw [mtchToks_lits, beq_iff_eq]

/-- behind a `/`, `**/*` accepts everything: some slash (possibly the first) is followed by a slash-free rest -/
theorem tail_always (r : List Char) :
    (mtchToks [.star] r || (suffixes r).any (fun suf => match suf with | '/' :: r2 => mtchToks [.star] r2 | _ => false)) = true := by
  have sg : ∀ t, mtchToks [.star] t = starGo (fun u => u.isEmpty) t := fun t => rfl
  induction r with
  | nil => simp [sg, starGo]
  | cons d r ih =>
    simp only [Bool.or_eq_true, List.any_eq_true] at ih ⊢
    rcases ih with h | ⟨suf, hsuf, hm⟩
    · by_cases hd : d = '/'
      · subst hd
        right
        exact ⟨'/' :: r, by simp [suffixes], h⟩
      · left
        rw [sg] at h ⊢
        simp only [starGo, Bool.or_eq_true, Bool.and_eq_true, bne_iff_ne, ne_eq]
        exact Or.inr ⟨hd, h⟩
    · right
      exact ⟨suf, by simp only [suffixes, List.mem_cons]; exact Or.inr hsuf, hm⟩

/-- **`x/**`** (which gitignore rewrites to `x/**/*`): matches exactly the paths strictly below `x` -/
theorem dir_contents_iff (x s : List Char) :
    mtchToks (lits x ++ [.recMid, .star]) s = true ↔ ∃ rest, s = x ++ '/' :: rest := by
  rw [mtchToks_lits_append]
  simp only [Bool.and_eq_true, startsWith, beq_iff_eq]
  constructor
  · rintro ⟨hpre, hm⟩
    have hs : s = x ++ s.drop x.length := by
      conv => lhs; rw [← List.take_append_drop x.length s]
      rw [hpre]
    cases hd : s.drop x.length with
    | nil => rw [hd] at hm; simp [mtchToks, matchTok] at hm
    | cons a rest =>
      rw [hd] at hm
      by_cases ha : a = '/'
      · subst ha; exact ⟨rest, by rw [hs, hd]⟩
      · simp only [mtchToks, matchTok] at hm
        split at hm
        · next heq => simp only [List.cons.injEq] at heq; exact absurd heq.1 ha
        · cases hm
  · rintro ⟨rest, rfl⟩
    refine ⟨by simp, ?_⟩
    have : (x ++ '/' :: rest).drop x.length = '/' :: rest := by simp
    rw [this]
    show matchTok .recMid (mtchToks [.star]) ('/' :: rest) = true
    simp only [matchTok]
    exact tail_always rest

/-! ### the fuel of the parser always suffices -/

theorem parseClass_go_shorter (neg : Bool) : ∀ (cs : List Char) (first inRange : Bool) (rs : List (Char × Char)) (t : Tok) (r : List Char),
    parseClass.go neg first inRange rs cs = some (t, r) → r.length < cs.length := by
  intro cs
  induction cs with
  | nil => intro first inRange rs t r h; simp [parseClass.go] at h
  | cons c cs ih =>
    intro first inRange rs t r h
    unfold parseClass.go at h
    split at h
    · cases h
    · next heq =>
      simp only [List.cons.injEq] at heq; obtain ⟨_, rfl⟩ := heq
      split at h
      · have := ih _ _ _ _ _ h; simp; omega
      · simp only [Option.some.injEq, Prod.mk.injEq] at h; obtain ⟨_, rfl⟩ := h; simp
    · next heq =>
      simp only [List.cons.injEq] at heq; obtain ⟨_, rfl⟩ := heq
      split at h
      · have := ih _ _ _ _ _ h; simp; omega
      · split at h
        · split at h
          · have := ih _ _ _ _ _ h; simp; omega
          · cases h
        · have := ih _ _ _ _ _ h; simp; omega
    · next heq =>
      simp only [List.cons.injEq] at heq; obtain ⟨_, rfl⟩ := heq
      split at h
      · split at h
        · split at h
          · cases h
          · have := ih _ _ _ _ _ h; simp; omega
        · cases h
      · have := ih _ _ _ _ _ h; simp; omega

theorem parseClass_shorter (cs : List Char) (t : Tok) (r : List Char) (h : parseClass cs = some (t, r)) : r.length < cs.length + 1 := by
  unfold parseClass at h
  simp only [] at h
  split at h <;>
    (have := parseClass_go_shorter _ _ _ _ _ _ _ h; simp only [List.length_cons] at this ⊢; omega)

/-- one unit of fuel more than the length is already more than the loop ever uses … -/
theorem parseGo_fuel_succ : ∀ (fuel : Nat) (prev : Option Char) (acc : List Tok) (cs : List Char), cs.length < fuel →
    parseGo (fuel + 1) prev acc cs = parseGo fuel prev acc cs := by
  intro fuel
  induction fuel with
  | zero => intro prev acc cs h; omega
  | succ n ih =>
    intro prev acc cs h
    conv => lhs; unfold parseGo
    conv => rhs; unfold parseGo
    repeat' split
    all_goals first
      | rfl
      | (apply ih; simp only [List.length_cons, List.length_nil] at *; omega)
      | (apply ih; have := parseClass_shorter _ _ _ ‹_›; simp only [List.length_cons, List.length_nil] at *; omega)

/-- … so any two sufficient amounts of fuel give the same parse: `parse`'s `length + 1` is not a cut-off -/
theorem parseGo_fuel (cs : List Char) (prev : Option Char) (acc : List Tok) (f : Nat) (hf : cs.length < f) :
    parseGo f prev acc cs = parseGo (cs.length + 1) prev acc cs := by
  induction f with
  | zero => omega
  | succ n ih =>
    by_cases h : cs.length < n
    · rw [parseGo_fuel_succ n prev acc cs h]; exact ih h
    · have : n = cs.length := by omega
      rw [this]

/-- `x/**/*` (what the gitignore line `x/**` is turned into): the literal `x`, then `/**/`, then `*` -/
theorem parse_dir_contents (x : List Char) (hx : ∀ c ∈ x, plain c = true) :
    parse (x ++ ['/', '*', '*', '/', '*']) = some (lits x ++ [.recMid, .star]) := by
  unfold parse
  have hxs : ∀ c ∈ x ++ ['/'], plain c = true := by
    intro c hc
    rcases List.mem_append.1 hc with h | h
    · exact hx c h
    · simp only [List.mem_singleton] at h; subst h; exact plain_slash
  have h := parseGo_lits (x ++ ['/']) hxs 5 none [] ['*', '*', '/', '*']
  have e : (x ++ ['/', '*', '*', '/', '*']).length + 1 = (x ++ ['/']).length + 5 := by simp
  rw [← parseGo_fuel _ none [] (5 + (x ++ ['/']).length) (by simp only [List.length_append, List.length_cons, List.length_nil]; omega)]
  have e2 : x ++ ['/', '*', '*', '/', '*'] = (x ++ ['/']) ++ ['*', '*', '/', '*'] := by simp
  rw [e2, h]
  have hl : (x ++ ['/']).getLast? = some '/' := by simp
  simp only [hl, List.append_nil]
  have hr : (lits (x ++ ['/'])).reverse = .lit '/' :: (lits x).reverse := by simp [lits]
  rw [hr]
  conv => lhs; unfold parseGo
  simp only [List.isEmpty_cons, Bool.false_eq_true, if_false, Option.map_some, isSep, beq_self_eq_true, Option.getD_some,
    Bool.not_true, if_true]
  conv => lhs; unfold parseGo
  simp only []
  rw [parseGo_nil]
  simp [lits]

#print axioms recPrefix_lits_iff
#print axioms star_ext_iff
#print axioms dir_contents_iff
#print axioms parse_plain
#print axioms parseGo_fuel
end Sp.Glob

namespace Sp.Glob
/-! ### gitignore lines of the property's grammar: what `GitignoreBuilder::add_line` makes of them -/

/-- text without glob syntax, separators or blanks, not starting like a comment or a negation -/
structure Clean (n : List Char) : Prop where
  ne : n ≠ []
  chars : ∀ c ∈ n, plain c = true ∧ c ≠ '/' ∧ c.isWhitespace = false
  first : n.head? ≠ some '#' ∧ n.head? ≠ some '!'

theorem startsWith_cons_ne {c d : Char} {r : List Char} (h : c ≠ d) : startsWith (c :: r) [d] = false := by
  simp [startsWith, h]

theorem Clean.last {n : List Char} (h : Clean n) : ∃ l rr, n.reverse = l :: rr ∧ plain l = true ∧ l ≠ '/' ∧ l.isWhitespace = false := by
  cases hr : n.reverse with
  | nil => exact absurd (by simpa using hr) h.ne
  | cons l rr =>
    have : l ∈ n := by have : l ∈ n.reverse := by rw [hr]; exact List.mem_cons_self
                       simpa using this
    exact ⟨l, rr, rfl, h.chars l this⟩

theorem Clean.trim {n : List Char} (h : Clean n) : trimRight n = n := by
  obtain ⟨l, rr, hr, _, _, hw⟩ := h.last
  unfold trimRight
  rw [hr, List.dropWhile_cons_of_neg (by simp [hw]), ← hr, List.reverse_reverse]

theorem Clean.noEsc {n : List Char} (h : Clean n) : endsWith n ['\\', ' '] = false := by
  obtain ⟨l, rr, hr, _, _, hw⟩ := h.last
  unfold endsWith
  rw [hr]
  have : l ≠ ' ' := by intro e; subst e; simp at hw
  cases rr <;> simp [this]

theorem Clean.getLast {n : List Char} (h : Clean n) : ∃ l, n.getLast? = some l ∧ plain l = true ∧ l ≠ '/' := by
  obtain ⟨l, rr, hr, hp, hs, _⟩ := h.last
  refine ⟨l, ?_, hp, hs⟩
  rw [List.getLast?_eq_head?_reverse, hr]; rfl

theorem Clean.noSlash {n : List Char} (h : Clean n) : n.any (· == '/') = false := by
  rw [List.any_eq_false]
  intro c hc; simpa using (h.chars c hc).2.1

end Sp.Glob

namespace Sp.Glob
/-! ### any line of the grammar: optional `!`, a core without blanks, optional trailing `/` -/

/-- a core pattern: non-empty, no blanks, does not start like a comment, a negation or an escape, does not end with a
    slash or a backslash, and is not the bare `/` -/
structure LineOk (core : List Char) : Prop where
  ne : core ≠ []
  noBlank : ∀ c ∈ core, c.isWhitespace = false
  first : core.head? ≠ some '#' ∧ core.head? ≠ some '!' ∧ core.head? ≠ some '\\'
  last : core.getLast? ≠ some '/' ∧ core.getLast? ≠ some '\\'

/-- the core without its anchoring slash -/
def unanchored (core : List Char) : List Char := if startsWith core ['/'] then core.drop 1 else core

theorem trimRight_noBlank {l : List Char} (hne : l ≠ []) (h : ∀ c ∈ l, c.isWhitespace = false) : trimRight l = l := by
  unfold trimRight
  cases hr : l.reverse with
  | nil => exact absurd (by simpa using hr) hne
  | cons a rr =>
    have : a ∈ l := by have : a ∈ l.reverse := by rw [hr]; exact List.mem_cons_self
                       simpa using this
    rw [List.dropWhile_cons_of_neg (by simp [h a this]), ← hr, List.reverse_reverse]

theorem endsWith_esc_noBlank {l : List Char} (h : ∀ c ∈ l, c.isWhitespace = false) : endsWith l ['\\', ' '] = false := by
  unfold endsWith
  cases hr : l.reverse with
  | nil => simp
  | cons a rr =>
    have : a ∈ l := by have : a ∈ l.reverse := by rw [hr]; exact List.mem_cons_self
                       simpa using this
    have hw := h a this
    have : a ≠ ' ' := by intro e; subst e; simp at hw
    cases rr <;> simp [this]

theorem linePrefix_ok (neg : Bool) (core tail : List Char) (h : LineOk core) :
    linePrefix ((if neg then ['!'] else []) ++ core ++ tail) = (neg, startsWith core ['/'], unanchored core ++ tail) := by
  obtain ⟨c, r, rfl⟩ : ∃ c r, core = c :: r := by
    cases core with
    | nil => exact absurd rfl h.ne
    | cons c r => exact ⟨c, r, rfl⟩
  have h2 : c ≠ '!' := by have := h.first.2.1; simpa using this
  have h3 : c ≠ '\\' := by have := h.first.2.2; simpa using this
  unfold linePrefix unanchored
  cases neg
  · by_cases hs : c = '/'
    · subst hs; simp [startsWith]
    · simp [startsWith, h2, h3, hs]
  · by_cases hs : c = '/'
    · subst hs; simp [startsWith]
    · simp [startsWith, hs]

theorem unanchored_last {core : List Char} (h : LineOk core) :
    unanchored core ≠ [] ∧ (unanchored core).getLast? ≠ some '/' ∧ (unanchored core).getLast? ≠ some '\\' := by
  unfold unanchored
  split
  · next hs =>
    cases core with
    | nil => exact absurd rfl h.ne
    | cons c r =>
      cases r with
      | nil =>
        have : c = '/' := by simpa [startsWith] using hs
        subst this; exact absurd rfl h.last.1
      | cons d r' =>
        have l1 := h.last.1; have l2 := h.last.2
        simp only [List.getLast?_cons_cons] at l1 l2
        exact ⟨by simp, by simpa using l1, by simpa using l2⟩
  · exact ⟨h.ne, h.last.1, h.last.2⟩

theorem lineDir_ok (onlyDir : Bool) (x : List Char) (hne : x ≠ []) (h1 : x.getLast? ≠ some '/') (h2 : x.getLast? ≠ some '\\') :
    lineDir (x ++ (if onlyDir then ['/'] else [])) = (onlyDir, x) := by
  unfold lineDir
  cases onlyDir
  · simp only [Bool.false_eq_true, if_false, List.append_nil]
    have : (x.getLast? == some '/') = false := by
      cases hx : x.getLast? with
      | none => rfl
      | some a => rw [hx] at h1; simp at h1 ⊢; exact h1
    simp [this]
  · simp only [if_true]
    have e1 : (x ++ ['/']).getLast? = some '/' := by simp
    have e2 : (x ++ ['/']).dropLast = x := by simp
    have : (x.getLast? == some '\\') = false := by
      cases hx : x.getLast? with
      | none => rfl
      | some a => rw [hx] at h2; simp at h2 ⊢; exact h2
    simp [e1, e2, this]

/-- **every line of the grammar** — `[!]core[/]`: the glob handed to the parser is `lineGlob` of the core without its
    anchoring slash; the negation and directory-only flags are exactly the `!` and the trailing `/` -/
theorem addLine_ok (neg onlyDir : Bool) (core : List Char) (h : LineOk core) :
    addLine ((if neg then ['!'] else []) ++ core ++ (if onlyDir then ['/'] else [])) =
      match parse (lineGlob (startsWith core ['/']) (unanchored core)) with
      | some toks => some (some ⟨(if neg then ['!'] else []) ++ core ++ (if onlyDir then ['/'] else []), toks, neg, onlyDir⟩)
      | none => some none := by
  have hc1 : core.head? ≠ some '#' := h.first.1
  generalize hfull : (if neg then ['!'] else []) ++ core ++ (if onlyDir then ['/'] else []) = full
  have hfb : ∀ d ∈ full, d.isWhitespace = false := by
    intro d hd
    rw [← hfull] at hd
    simp only [List.mem_append] at hd
    rcases hd with (hd | hd) | hd
    · cases neg <;> simp at hd; subst hd; decide
    · exact h.noBlank d hd
    · cases onlyDir <;> simp at hd; subst hd; decide
  have hfne : full ≠ [] := by
    rw [← hfull]
    cases core with
    | nil => exact absurd rfl h.ne
    | cons c r => cases neg <;> simp
  have hhash : startsWith full ['#'] = false := by
    rw [← hfull]
    cases core with
    | nil => exact absurd rfl h.ne
    | cons c r =>
      have h1 : c ≠ '#' := by simpa using hc1
      cases neg <;> simp [startsWith, h1]
  have hemp : full.isEmpty = false := by cases full with | nil => exact absurd rfl hfne | cons _ _ => rfl
  unfold addLine
  simp only [hhash, Bool.false_eq_true, if_false, endsWith_esc_noBlank hfb, trimRight_noBlank hfne hfb, hemp]
  have hp : linePrefix full = (neg, startsWith core ['/'], unanchored core ++ (if onlyDir then ['/'] else [])) := by
    rw [← hfull]; exact linePrefix_ok neg core _ h
  obtain ⟨u1, u2, u3⟩ := unanchored_last h
  have hd := lineDir_ok onlyDir (unanchored core) u1 u2 u3
  rw [hp]
  simp only []
  rw [hd]
  cases parse (lineGlob (startsWith core ['/']) (unanchored core)) <;> rfl

/-- a `Clean` name is a core pattern -/
theorem Clean.lineOk {n : List Char} (h : Clean n) : LineOk n := by
  obtain ⟨l, hl, hlp, hls⟩ := h.getLast
  have hlb : l ≠ '\\' := by
    simp only [plain, Bool.and_eq_true, bne_iff_ne, ne_eq] at hlp; exact hlp.1.2
  refine ⟨h.ne, fun c hc => (h.chars c hc).2.2, ⟨h.first.1, h.first.2, ?_⟩, ?_, ?_⟩
  · cases n with
    | nil => exact absurd rfl h.ne
    | cons c r =>
      have hp := (h.chars c List.mem_cons_self).1
      simp only [plain, Bool.and_eq_true, bne_iff_ne, ne_eq] at hp
      simpa using hp.1.2
  · rw [hl]; simpa using hls
  · rw [hl]; simpa using hlb

theorem Clean.unanchored {n : List Char} (h : Clean n) : startsWith n ['/'] = false ∧ unanchored n = n := by
  cases n with
  | nil => exact absurd rfl h.ne
  | cons c r =>
    have hs := (h.chars c List.mem_cons_self).2.1
    have : startsWith (c :: r) ['/'] = false := startsWith_cons_ne hs
    exact ⟨this, by simp [Sp.Glob.unanchored, this]⟩

theorem Clean.lineGlob {n : List Char} (h : Clean n) : lineGlob false n = '*' :: '*' :: '/' :: n := by
  obtain ⟨c, r, rfl⟩ : ∃ c r, n = c :: r := by
    cases n with
    | nil => exact absurd rfl h.ne
    | cons c r => exact ⟨c, r, rfl⟩
  have hpl := (h.chars c List.mem_cons_self).1
  simp only [plain, Bool.and_eq_true, bne_iff_ne, ne_eq] at hpl
  have hst : c ≠ '*' := hpl.2
  obtain ⟨l, hl, hlp, hls⟩ := h.getLast
  have hlstar : l ≠ '*' := by
    simp only [plain, Bool.and_eq_true, bne_iff_ne, ne_eq] at hlp; exact hlp.2
  have e6 : startsWith (c :: r) ['*', '*', '/'] = false := by simp [startsWith, hst]
  have e7 : ((c :: r) == ['*', '*']) = false := by simp [hst]
  have e8 : endsWith ('*' :: '*' :: '/' :: c :: r) ['/', '*', '*'] = false := by
    unfold endsWith
    obtain ⟨l', rr, hr, _⟩ := h.last
    have hl' : l' = l := by
      have : (c :: r).getLast? = some l' := by rw [List.getLast?_eq_head?_reverse, hr]; rfl
      rw [hl] at this; injection this with this; exact this.symm
    have : ('*' :: '*' :: '/' :: c :: r).reverse = l' :: (rr ++ ['/', '*', '*']) := by
      simp only [List.reverse_cons] at hr ⊢
      rw [hr]; simp
    rw [this, hl']
    cases rr <;> simp [hlstar]
  have hns : ((c :: r).any fun x => x == '/') = false := h.noSlash
  unfold Sp.Glob.lineGlob
  simp only [hns, e6, e7, Bool.not_false, Bool.and_self, Bool.or_self, Bool.false_eq_true, if_false, if_true, List.cons_append,
    List.nil_append, e8]

/-- **`name`, `!name`, `name/`, `!name/`** — a slash-free line becomes the glob `**/name`, negated by a leading `!`,
    directories only with a trailing `/` -/
theorem addLine_name (neg onlyDir : Bool) (n : List Char) (h : Clean n) :
    addLine ((if neg then ['!'] else []) ++ n ++ (if onlyDir then ['/'] else [])) =
      some (some ⟨(if neg then ['!'] else []) ++ n ++ (if onlyDir then ['/'] else []), .recPrefix :: lits n, neg, onlyDir⟩) := by
  rw [addLine_ok neg onlyDir n h.lineOk, h.unanchored.1, h.unanchored.2, h.lineGlob,
    parse_recPrefix_plain n (fun d hd => (h.chars d hd).1)]

/-- … and such a glob matches exactly the paths whose last component is `name` (`recPrefix_lits_iff`) -/
theorem name_matches (n s : List Char) (h : Clean n) :
    mtch (.recPrefix :: lits n) s = true ↔ s = n ∨ ∃ pre, s = pre ++ '/' :: n := by
  have : (Tok.recPrefix :: lits n == [Tok.recPrefix]) = false := by
    cases n with
    | nil => exact absurd rfl h.ne
    | cons c r => simp [lits]
  unfold mtch
  simp only [this, Bool.false_eq_true, if_false]
  exact recPrefix_lits_iff n s

#print axioms addLine_name
#print axioms addLine_ok
end Sp.Glob

namespace Sp.Glob
/-! ### the other shapes of the grammar, line by line -/

theorem endsWith_last_ne {l suf : List Char} {a b : Char} (hl : l.getLast? = some a) (hs : suf.getLast? = some b) (hne : a ≠ b) :
    endsWith l suf = false := by
  unfold endsWith
  rw [List.getLast?_eq_head?_reverse] at hl hs
  cases hr : l.reverse with
  | nil => rw [hr] at hl; cases hl
  | cons x xs =>
    rw [hr] at hl; simp only [List.head?_cons, Option.some.injEq] at hl; subst hl
    cases hq : suf.reverse with
    | nil => rw [hq] at hs; cases hs
    | cons y ys =>
      rw [hq] at hs; simp only [List.head?_cons, Option.some.injEq] at hs; subst hs
      have : suf.length = ys.length + 1 := by have := congrArg List.length hq; simpa using this
      rw [this]
      simp [hne]

/-- a core whose last character is not `*` is handed over unchanged, apart from the `**/` in front of slash-free ones -/
theorem lineGlob_noStar (abs : Bool) (line : List Char) (a : Char) (hl : line.getLast? = some a) (ha : a ≠ '*') :
    lineGlob abs line =
      if !abs && !line.any (· == '/') then
        (if startsWith line ['*', '*', '/'] || line == ['*', '*'] then line else '*' :: '*' :: '/' :: line)
      else line := by
  unfold lineGlob
  simp only []
  have e1 : endsWith line ['/', '*', '*'] = false := endsWith_last_ne hl (by simp) ha
  have e2 : endsWith ('*' :: '*' :: '/' :: line) ['/', '*', '*'] = false :=
    endsWith_last_ne (a := a) (by
      cases line with
      | nil => cases hl
      | cons c r => simpa [List.getLast?_cons_cons] using hl) (by simp) ha
  split
  · split
    · simp [e1]
    · simp [e2]
  · simp [e1]

theorem Clean.plainAll {n : List Char} (h : Clean n) : ∀ c ∈ n, plain c = true := fun c hc => (h.chars c hc).1

theorem Clean.lastNe {n : List Char} (h : Clean n) : ∃ a, n.getLast? = some a ∧ a ≠ '*' ∧ a ≠ '/' ∧ a ≠ '\\' := by
  obtain ⟨l, hl, hlp, hls⟩ := h.getLast
  simp only [plain, Bool.and_eq_true, bne_iff_ne, ne_eq] at hlp
  exact ⟨l, hl, hlp.2, hls, hlp.1.2⟩

/-- **`/rooted`** (also `!/rooted`, `/rooted/`): anchored — the glob is the literal relative path -/
theorem addLine_rooted (neg onlyDir : Bool) (n : List Char) (h : Clean n) :
    addLine ((if neg then ['!'] else []) ++ '/' :: n ++ (if onlyDir then ['/'] else [])) =
      some (some ⟨(if neg then ['!'] else []) ++ '/' :: n ++ (if onlyDir then ['/'] else []), lits n, neg, onlyDir⟩) := by
  obtain ⟨a, hl, hstar, hsl, hbs⟩ := h.lastNe
  have hl' : ('/' :: n).getLast? = some a := by
    cases n with
    | nil => exact absurd rfl h.ne
    | cons c r => simpa [List.getLast?_cons_cons] using hl
  have ok : LineOk ('/' :: n) := by
    refine ⟨by simp, ?_, ⟨by simp, by simp, by simp⟩, ?_, ?_⟩
    · intro c hc; rcases List.mem_cons.1 hc with rfl | hc
      · decide
      · exact (h.chars c hc).2.2
    · rw [hl']; simpa using hsl
    · rw [hl']; simpa using hbs
  have hu : unanchored ('/' :: n) = n := by simp [unanchored, startsWith]
  have hs : startsWith ('/' :: n) ['/'] = true := by simp [startsWith]
  have := addLine_ok neg onlyDir ('/' :: n) ok
  rw [hu, hs, lineGlob_noStar true n a hl hstar] at this
  simp only [Bool.not_true, Bool.false_and, Bool.false_eq_true, if_false] at this
  rw [parse_plain n h.plainAll] at this
  simpa using this

/-- … which matches that path only -/
theorem rooted_matches (n s : List Char) (h : Clean n) : mtch (lits n) s = true ↔ s = n := by
  have : (lits n == [Tok.recPrefix]) = false := by
    cases n with
    | nil => exact absurd rfl h.ne
    | cons c r => cases r <;> simp [lits]
  unfold mtch
  simp only [this, Bool.false_eq_true, if_false]
  exact lits_iff n s

/-- **`a/b`** (a slash inside, not anchored): NOT prefixed with `**/` — the glob is the literal relative path, exactly as
    for `/a/b` -/
theorem addLine_inner_slash (neg onlyDir : Bool) (a b : List Char) (ha : Clean a) (hb : Clean b) :
    addLine ((if neg then ['!'] else []) ++ (a ++ '/' :: b) ++ (if onlyDir then ['/'] else [])) =
      some (some ⟨(if neg then ['!'] else []) ++ (a ++ '/' :: b) ++ (if onlyDir then ['/'] else []), lits (a ++ '/' :: b), neg, onlyDir⟩) := by
  obtain ⟨z, hl, hstar, hsl, hbs⟩ := hb.lastNe
  have hl' : (a ++ '/' :: b).getLast? = some z := by
    cases b with
    | nil => exact absurd rfl hb.ne
    | cons c r => rw [List.getLast?_append]; simp only [List.getLast?_cons_cons] at hl ⊢; simp [hl]
  obtain ⟨c, r, rfl⟩ : ∃ c r, a = c :: r := by
    cases a with
    | nil => exact absurd rfl ha.ne
    | cons c r => exact ⟨c, r, rfl⟩
  have hc := ha.chars c List.mem_cons_self
  have hcp := hc.1
  simp only [plain, Bool.and_eq_true, bne_iff_ne, ne_eq] at hcp
  have ok : LineOk (c :: r ++ '/' :: b) := by
    refine ⟨by simp, ?_, ⟨?_, ?_, ?_⟩, ?_, ?_⟩
    · intro d hd
      rcases List.mem_append.1 hd with hd | hd
      · exact (ha.chars d hd).2.2
      · rcases List.mem_cons.1 hd with rfl | hd
        · decide
        · exact (hb.chars d hd).2.2
    · have := ha.first.1; simpa using this
    · have := ha.first.2; simpa using this
    · simpa using hcp.1.2
    · rw [hl']; simpa using hsl
    · rw [hl']; simpa using hbs
  have hs : startsWith (c :: r ++ '/' :: b) ['/'] = false := by simp [startsWith, hc.2.1]
  have hu : unanchored (c :: r ++ '/' :: b) = c :: r ++ '/' :: b := by unfold unanchored; rw [hs]; rfl
  have hany : (c :: r ++ '/' :: b).any (· == '/') = true := by simp
  have hall : ∀ d ∈ c :: r ++ '/' :: b, plain d = true := by
    intro d hd
    rcases List.mem_append.1 hd with hd | hd
    · exact (ha.chars d hd).1
    · rcases List.mem_cons.1 hd with rfl | hd
      · exact plain_slash
      · exact (hb.chars d hd).1
  have := addLine_ok neg onlyDir (c :: r ++ '/' :: b) ok
  rw [hu, hs, lineGlob_noStar false _ z hl' hstar] at this
  simp only [hany, Bool.not_false, Bool.not_true, Bool.and_false, Bool.false_eq_true, if_false] at this
  rw [parse_plain _ hall] at this
  simpa using this

#print axioms addLine_rooted
#print axioms addLine_inner_slash
end Sp.Glob

namespace Sp.Glob

/-- **`*.ext`** (also `!*.ext`): slash-free, so it applies at every depth — the glob is `**/*.ext` -/
theorem addLine_star_ext (neg onlyDir : Bool) (e : List Char) (h : Clean e) :
    addLine ((if neg then ['!'] else []) ++ '*' :: '.' :: e ++ (if onlyDir then ['/'] else [])) =
      some (some ⟨(if neg then ['!'] else []) ++ '*' :: '.' :: e ++ (if onlyDir then ['/'] else []),
        .recPrefix :: .star :: lits ('.' :: e), neg, onlyDir⟩) := by
  obtain ⟨a, hl, hstar, hsl, hbs⟩ := h.lastNe
  obtain ⟨c, r, rfl⟩ : ∃ c r, e = c :: r := by
    cases e with
    | nil => exact absurd rfl h.ne
    | cons c r => exact ⟨c, r, rfl⟩
  have hl' : ('*' :: '.' :: c :: r).getLast? = some a := by simpa [List.getLast?_cons_cons] using hl
  have ok : LineOk ('*' :: '.' :: c :: r) := by
    refine ⟨by simp, ?_, ⟨by simp, by simp, by simp⟩, ?_, ?_⟩
    · intro d hd
      rcases List.mem_cons.1 hd with rfl | hd
      · decide
      · rcases List.mem_cons.1 hd with rfl | hd
        · decide
        · exact (h.chars d hd).2.2
    · rw [hl']; simpa using hsl
    · rw [hl']; simpa using hbs
  have hs : startsWith ('*' :: '.' :: c :: r) ['/'] = false := by simp [startsWith]
  have hu : unanchored ('*' :: '.' :: c :: r) = '*' :: '.' :: c :: r := by unfold unanchored; rw [hs]; rfl
  have hany : ('*' :: '.' :: c :: r).any (· == '/') = false := by
    have := h.noSlash
    simp only [List.any_cons] at this ⊢
    simpa using this
  have e6 : startsWith ('*' :: '.' :: c :: r) ['*', '*', '/'] = false := by simp [startsWith]
  have e7 : (('*' :: '.' :: c :: r) == ['*', '*']) = false := by simp
  have := addLine_ok neg onlyDir ('*' :: '.' :: c :: r) ok
  rw [hu, hs, lineGlob_noStar false _ a hl' hstar] at this
  simp only [hany, e6, e7, Bool.not_false, Bool.and_self, Bool.or_self, Bool.false_eq_true, if_false, if_true] at this
  rw [parse_star_ext (c :: r) h.plainAll] at this
  simpa using this

/-- … which matches exactly the paths whose last component ends with `.ext` (`star_ext_iff`) -/
theorem star_ext_matches (e s : List Char) :
    mtch (.recPrefix :: .star :: lits ('.' :: e)) s = true ↔
      ∃ pre stem, (s = stem ++ '.' :: e ∨ s = pre ++ '/' :: (stem ++ '.' :: e)) ∧ ∀ c ∈ stem, c ≠ '/' := by
  have : (Tok.recPrefix :: Tok.star :: lits ('.' :: e) == [Tok.recPrefix]) = false := by simp [lits]
  unfold mtch
  simp only [this, Bool.false_eq_true, if_false]
  exact star_ext_iff ('.' :: e) s

/-- **`x/**`** (also `!x/**`): everything strictly below `x` — the glob is `x/**/*` -/
theorem addLine_dir_contents (neg : Bool) (x : List Char) (h : Clean x) :
    addLine ((if neg then ['!'] else []) ++ (x ++ ['/', '*', '*'])) =
      some (some ⟨(if neg then ['!'] else []) ++ (x ++ ['/', '*', '*']), lits x ++ [.recMid, .star], neg, false⟩) := by
  obtain ⟨c, r, rfl⟩ : ∃ c r, x = c :: r := by
    cases x with
    | nil => exact absurd rfl h.ne
    | cons c r => exact ⟨c, r, rfl⟩
  have hc := h.chars c List.mem_cons_self
  have hcp := hc.1
  simp only [plain, Bool.and_eq_true, bne_iff_ne, ne_eq] at hcp
  have hlast : (c :: r ++ ['/', '*', '*']).getLast? = some '*' := by
    rw [List.getLast?_append]; simp
  have ok : LineOk (c :: r ++ ['/', '*', '*']) := by
    refine ⟨by simp, ?_, ⟨?_, ?_, ?_⟩, ?_, ?_⟩
    · intro d hd
      rcases List.mem_append.1 hd with hd | hd
      · exact (h.chars d hd).2.2
      · simp only [List.mem_cons, List.mem_nil_iff, or_false] at hd
        rcases hd with rfl | rfl | rfl <;> decide
    · have := h.first.1; simpa using this
    · have := h.first.2; simpa using this
    · simpa using hcp.1.2
    · rw [hlast]; simp
    · rw [hlast]; simp
  have hs : startsWith (c :: r ++ ['/', '*', '*']) ['/'] = false := by simp [startsWith, hc.2.1]
  have hu : unanchored (c :: r ++ ['/', '*', '*']) = c :: r ++ ['/', '*', '*'] := by unfold unanchored; rw [hs]; rfl
  have hany : (c :: r ++ ['/', '*', '*']).any (· == '/') = true := by simp
  have hends : endsWith (c :: r ++ ['/', '*', '*']) ['/', '*', '*'] = true := by
    unfold endsWith; simp
  have hg : lineGlob false (c :: r ++ ['/', '*', '*']) = (c :: r) ++ ['/', '*', '*', '/', '*'] := by
    unfold lineGlob
    simp only [hany, Bool.not_false, Bool.not_true, Bool.and_false, Bool.false_eq_true, if_false, hends, if_true]
    simp
  have := addLine_ok neg false (c :: r ++ ['/', '*', '*']) ok
  rw [hu, hs, hg, parse_dir_contents (c :: r) h.plainAll] at this
  simpa using this

/-- … which matches exactly the paths strictly below `x` (`dir_contents_iff`) -/
theorem dir_contents_matches (x s : List Char) (h : Clean x) :
    mtch (lits x ++ [.recMid, .star]) s = true ↔ ∃ rest, s = x ++ '/' :: rest := by
  have : (lits x ++ [Tok.recMid, Tok.star] == [Tok.recPrefix]) = false := by
    cases x with
    | nil => exact absurd rfl h.ne
    | cons c r => cases r <;> simp [lits]
  unfold mtch
  simp only [this, Bool.false_eq_true, if_false]
  exact dir_contents_iff x s

#print axioms addLine_star_ext
#print axioms addLine_dir_contents
end Sp.Glob
