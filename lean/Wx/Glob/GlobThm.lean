import Wx.Glob.Glob
/-! What the glob model means on the pattern grammar the properties name (C03 / C11: literal names, `*.ext`, `/rooted`,
    `a/b`, `**/x`, `x/**`): the parser's output for each shape and an exact characterisation of the strings the resulting
    token list matches. The model itself is tied to the real `ignore` / `globset` crates by the glob stream; these theorems
    say that what the stream validates IS the documented rule, for every name, extension and candidate path — not for the
    sampled ones. Also: the parser's fuel always suffices. -/
namespace Sp.Glob

/-- characters without a meaning of their own in a glob -/
def plain (c : Char) : Bool := c != '?' && c != '[' && c != '\\' && c != '*'

def lits (s : List Char) : List Tok := s.map Tok.lit

/-! ### the parser on literal runs -/

theorem parseGo_plain_cons {fuel : Nat} {prev : Option Char} {acc : List Tok} {c : Char} {r : List Char} (hc : plain c = true) :
    parseGo (fuel + 1) prev acc (c :: r) = parseGo fuel (some c) (.lit c :: acc) r := by
  simp only [plain, Bool.and_eq_true, bne_iff_ne, ne_eq] at hc
  obtain ⟨⟨⟨h1, h2⟩, h3⟩, h4⟩ := hc
  conv => lhs; unfold parseGo
  split <;> simp_all

/-- a run of plain characters becomes that many literal tokens; the parser continues behind it -/
theorem parseGo_lits (s : List Char) (hs : ∀ c ∈ s, plain c = true) :
    ∀ (fuel : Nat) (prev : Option Char) (acc : List Tok) (rest : List Char),
      parseGo (fuel + s.length) prev acc (s ++ rest) =
        parseGo fuel (match s.getLast? with | some c => some c | none => prev) ((lits s).reverse ++ acc) rest := by
  induction s with
  | nil => intro fuel prev acc rest; simp [lits]
  | cons c s ih =>
    intro fuel prev acc rest
    have hc := hs c List.mem_cons_self
    have hs' : ∀ d ∈ s, plain d = true := fun d hd => hs d (List.mem_cons_of_mem _ hd)
    rw [List.length_cons, ← Nat.add_assoc, List.cons_append, parseGo_plain_cons hc, ih hs']
    congr 1
    · cases s with
      | nil => rfl
      | cons d s =>
        cases h : (d :: s).getLast? with
        | none => simp at h
        | some x => simp [List.getLast?_cons_cons, h]
    · simp [lits]

theorem parseGo_nil (fuel : Nat) (prev : Option Char) (acc : List Tok) : parseGo (fuel + 1) prev acc [] = some acc.reverse := by
  unfold parseGo; rfl

/-- a pattern of plain characters is matched literally -/
theorem parse_plain (s : List Char) (hs : ∀ c ∈ s, plain c = true) : parse s = some (lits s) := by
  unfold parse
  have := parseGo_lits s hs 1 none [] []
  simp only [List.append_nil] at this
  rw [Nat.add_comm, this, parseGo_nil]
  simp [lits]

/-- `**/name` (what a slash-free gitignore line `name` is turned into) -/
theorem parse_recPrefix_plain (s : List Char) (hs : ∀ c ∈ s, plain c = true) :
    parse ('*' :: '*' :: '/' :: s) = some (.recPrefix :: lits s) := by
  unfold parse
  have h := parseGo_lits s hs 3 (some '/') [.recPrefix] []
  simp only [List.append_nil] at h
  have e : ('*' :: '*' :: '/' :: s).length + 1 = (3 + s.length) + 1 := by simp only [List.length_cons]; omega
  rw [e]
  conv => lhs; unfold parseGo
  simp only [List.isEmpty_nil, if_true, isSep, beq_self_eq_true]
  rw [h, parseGo_nil]
  simp [lits]

/-- `**/*.ext` (the gitignore line `*.ext`) -/
theorem parse_star_ext (e : List Char) (he : ∀ c ∈ e, plain c = true) :
    parse ('*' :: '*' :: '/' :: '*' :: '.' :: e) = some (.recPrefix :: .star :: lits ('.' :: e)) := by
  unfold parse
  have hd : ∀ c ∈ '.' :: e, plain c = true := by
    intro c hc; rcases List.mem_cons.1 hc with rfl | hc
    · decide
    · exact he c hc
  have h := parseGo_lits ('.' :: e) hd 3 (some '*') [.star, .recPrefix] []
  simp only [List.append_nil] at h
  have e1 : ('*' :: '*' :: '/' :: '*' :: '.' :: e).length + 1 = ((3 + ('.' :: e).length) + 1) + 1 := by simp only [List.length_cons]; omega
  rw [e1]
  conv => lhs; unfold parseGo
  simp only [List.isEmpty_nil, if_true, isSep, beq_self_eq_true]
  conv => lhs; unfold parseGo
  simp only []
  rw [h, parseGo_nil]
  simp [lits]

theorem plain_slash : plain '/' = true := by decide

/-! ### what token lists match -/

theorem mtchToks_lits (s t : List Char) : mtchToks (lits s) t = (t == s) := by
  induction s generalizing t with
  | nil => cases t <;> simp [lits, mtchToks]
  | cons c s ih =>
    cases t with
    | nil => simp [lits, mtchToks, matchTok]
    | cons d t =>
      have := ih t
      simp only [lits, List.map_cons, mtchToks, matchTok] at this ⊢
      rw [this]
      by_cases h : c = d
      · subst h; simp
      · have h' : ¬ d = c := fun e => h e.symm
        have b1 : (c == d) = false := by simpa using h
        have b2 : (d == c) = false := by simpa using h'
        simp [b1, b2]

theorem mtchToks_lits_append (s : List Char) (ts : List Tok) (t : List Char) :
    mtchToks (lits s ++ ts) t = (startsWith t s && mtchToks ts (t.drop s.length)) := by
  induction s generalizing t with
  | nil => simp [lits, startsWith]
  | cons c s ih =>
    cases t with
    | nil => simp [lits, mtchToks, matchTok, startsWith]
    | cons d t =>
      have := ih t
      simp only [lits, List.map_cons, List.cons_append, mtchToks, matchTok, startsWith, List.length_cons, List.take_succ_cons,
        List.drop_succ_cons] at this ⊢
      rw [this]
      by_cases h : c = d
      · subst h; simp
      · have h' : ¬ d = c := fun e => h e.symm
        have b1 : (c == d) = false := by simpa using h
        have b2 : (d == c) = false := by simpa using h'
        simp [b1, b2]

theorem mem_suffixes {s suf : List Char} : suf ∈ suffixes s ↔ ∃ pre, s = pre ++ suf := by
  induction s with
  | nil =>
    simp only [suffixes, List.mem_singleton]
    constructor
    · rintro rfl; exact ⟨[], rfl⟩
    · rintro ⟨pre, h⟩
      have := congrArg List.length h
      simp at this
      cases suf with
      | nil => rfl
      | cons a b => simp at this
  | cons c r ih =>
    simp only [suffixes, List.mem_cons]
    constructor
    · rintro (rfl | h)
      · exact ⟨[], rfl⟩
      · obtain ⟨pre, hp⟩ := ih.1 h
        exact ⟨c :: pre, by rw [hp]; rfl⟩
    · rintro ⟨pre, hp⟩
      cases pre with
      | nil => left; exact hp.symm
      | cons a pre =>
        right
        simp only [List.cons_append, List.cons.injEq] at hp
        exact ih.2 ⟨pre, hp.2⟩

/-- `**/` in front: the rest matches the whole string or what follows some `/` -/
theorem mtchToks_recPrefix (ts : List Tok) (s : List Char) :
    mtchToks (.recPrefix :: ts) s = true ↔ mtchToks ts s = true ∨ ∃ pre r, s = pre ++ '/' :: r ∧ mtchToks ts r = true := by
  simp only [mtchToks, matchTok, Bool.or_eq_true, List.any_eq_true]
  constructor
  · rintro (h | ⟨suf, hsuf, hm⟩)
    · exact Or.inl h
    · right
      obtain ⟨pre, hp⟩ := mem_suffixes.1 hsuf
      cases suf with
      | nil => simp at hm
      | cons a r =>
        by_cases ha : a = '/'
        · subst ha; exact ⟨pre, r, hp, hm⟩
        · split at hm
          · next heq => simp only [List.cons.injEq] at heq; exact absurd heq.1 ha
          · cases hm
  · rintro (h | ⟨pre, r, hp, hm⟩)
    · exact Or.inl h
    · exact Or.inr ⟨'/' :: r, mem_suffixes.2 ⟨pre, hp⟩, hm⟩

/-- **a slash-free name** (`name`, `**/name`): matches exactly the paths whose last component is `name` — the whole
    candidate, or everything behind one of its slashes -/
theorem recPrefix_lits_iff (name s : List Char) :
    mtchToks (.recPrefix :: lits name) s = true ↔ s = name ∨ ∃ pre, s = pre ++ '/' :: name := by
  rw [mtchToks_recPrefix]
  simp only [mtchToks_lits, beq_iff_eq]
  constructor
  · rintro (h | ⟨pre, r, hp, rfl⟩)
    · exact Or.inl h
    · exact Or.inr ⟨pre, hp⟩
  · rintro (h | ⟨pre, hp⟩)
    · exact Or.inl h
    · exact Or.inr ⟨pre, name, hp, rfl⟩

/-- `*` = a run of non-separators, then the continuation -/
theorem starGo_iff (k : List Char → Bool) (s : List Char) :
    starGo k s = true ↔ ∃ base rest, s = base ++ rest ∧ (∀ c ∈ base, c ≠ '/') ∧ k rest = true := by
  induction s with
  | nil =>
    simp only [starGo]
    constructor
    · intro h; exact ⟨[], [], rfl, by simp, h⟩
    · rintro ⟨base, rest, h, _, hk⟩
      have hb : base = [] ∧ rest = [] := by simpa using h.symm
      rw [hb.2] at hk; exact hk
  | cons d r ih =>
    simp only [starGo, Bool.or_eq_true, Bool.and_eq_true, bne_iff_ne, ne_eq]
    constructor
    · rintro (h | ⟨hd, h⟩)
      · exact ⟨[], d :: r, rfl, by simp, h⟩
      · obtain ⟨base, rest, hs, hb, hk⟩ := ih.1 h
        refine ⟨d :: base, rest, by rw [hs]; rfl, ?_, hk⟩
        intro c hc; rcases List.mem_cons.1 hc with rfl | hc
        · exact hd
        · exact hb c hc
    · rintro ⟨base, rest, hs, hb, hk⟩
      cases base with
      | nil => left; simp only [List.nil_append] at hs; rw [hs]; exact hk
      | cons b base =>
        right
        simp only [List.cons_append, List.cons.injEq] at hs
        obtain ⟨rfl, hs⟩ := hs
        exact ⟨hb d List.mem_cons_self, ih.2 ⟨base, rest, hs, fun c hc => hb c (List.mem_cons_of_mem _ hc), hk⟩⟩

/-- **`*.ext`** (`**/*.ext`): matches exactly the paths whose last component ends with `.ext` — a prefix that is empty or
    ends at a slash, a slash-free stem, the extension -/
theorem star_ext_iff (ext s : List Char) :
    mtchToks (.recPrefix :: .star :: lits ext) s = true ↔
      ∃ pre stem, (s = stem ++ ext ∨ s = pre ++ '/' :: (stem ++ ext)) ∧ ∀ c ∈ stem, c ≠ '/' := by
  have star : ∀ t, mtchToks (.star :: lits ext) t = true ↔ ∃ stem, t = stem ++ ext ∧ ∀ c ∈ stem, c ≠ '/' := by
    intro t
    show starGo (mtchToks (lits ext)) t = true ↔ _
    rw [starGo_iff]
    constructor
    · rintro ⟨base, rest, ht, hb, hk⟩
      rw [mtchToks_lits, beq_iff_eq] at hk
      exact ⟨base, by rw [ht, hk], hb⟩
    · rintro ⟨stem, ht, hb⟩
      exact ⟨stem, ext, ht, hb, by rw [mtchToks_lits]; simp⟩
  rw [mtchToks_recPrefix]
  constructor
  · rintro (h | ⟨pre, r, hp, h⟩)
    · obtain ⟨stem, ht, hb⟩ := (star s).1 h
      exact ⟨[], stem, Or.inl ht, hb⟩
    · obtain ⟨stem, ht, hb⟩ := (star r).1 h
      exact ⟨pre, stem, Or.inr (by rw [hp, ht]), hb⟩
  · rintro ⟨pre, stem, h | h, hb⟩
    · exact Or.inl ((star s).2 ⟨stem, h, hb⟩)
    · exact Or.inr ⟨pre, stem ++ ext, h, (star _).2 ⟨stem, rfl, hb⟩⟩

/-- **a rooted or slash-containing literal** (`/rooted`, `a/b`): matches that relative path and nothing else -/
theorem lits_iff (p s : List Char) : mtchToks (lits p) s = true ↔ s = p := by
  rw [mtchToks_lits, beq_iff_eq]

/-- behind a `/`, `**/*` accepts everything: some slash (possibly the first) is followed by a slash-free rest -/
theorem tail_always (r : List Char) :
    (mtchToks [.star] r || (suffixes r).any (fun suf => match suf with | '/' :: r2 => mtchToks [.star] r2 | _ => false)) = true := by
  have sg : ∀ t, mtchToks [.star] t = starGo (fun u => u.isEmpty) t := fun t => rfl
  induction r with
  | nil => simp [sg, starGo]
  | cons d r ih =>
    simp only [Bool.or_eq_true, List.any_eq_true] at ih ⊢
    rcases ih with h | ⟨suf, hsuf, hm⟩
    · by_cases hd : d = '/'
      · subst hd
        right
        exact ⟨'/' :: r, by simp [suffixes], h⟩
      · left
        rw [sg] at h ⊢
        simp only [starGo, Bool.or_eq_true, Bool.and_eq_true, bne_iff_ne, ne_eq]
        exact Or.inr ⟨hd, h⟩
    · right
      exact ⟨suf, by simp only [suffixes, List.mem_cons]; exact Or.inr hsuf, hm⟩

/-- **`x/**`** (which gitignore rewrites to `x/**/*`): matches exactly the paths strictly below `x` -/
theorem dir_contents_iff (x s : List Char) :
    mtchToks (lits x ++ [.recMid, .star]) s = true ↔ ∃ rest, s = x ++ '/' :: rest := by
  rw [mtchToks_lits_append]
  simp only [Bool.and_eq_true, startsWith, beq_iff_eq]
  constructor
  · rintro ⟨hpre, hm⟩
    have hs : s = x ++ s.drop x.length := by
      conv => lhs; rw [← List.take_append_drop x.length s]
      rw [hpre]
    cases hd : s.drop x.length with
    | nil => rw [hd] at hm; simp [mtchToks, matchTok] at hm
    | cons a rest =>
      rw [hd] at hm
      by_cases ha : a = '/'
      · subst ha; exact ⟨rest, by rw [hs, hd]⟩
      · simp only [mtchToks, matchTok] at hm
        split at hm
        · next heq => simp only [List.cons.injEq] at heq; exact absurd heq.1 ha
        · cases hm
  · rintro ⟨rest, rfl⟩
    refine ⟨by simp, ?_⟩
    have : (x ++ '/' :: rest).drop x.length = '/' :: rest := by simp
    rw [this]
    show matchTok .recMid (mtchToks [.star]) ('/' :: rest) = true
    simp only [matchTok]
    exact tail_always rest

/-! ### the fuel of the parser always suffices -/

theorem parseClass_go_shorter (neg : Bool) : ∀ (cs : List Char) (first inRange : Bool) (rs : List (Char × Char)) (t : Tok) (r : List Char),
    parseClass.go neg first inRange rs cs = some (t, r) → r.length < cs.length := by
  intro cs
  induction cs with
  | nil => intro first inRange rs t r h; simp [parseClass.go] at h
  | cons c cs ih =>
    intro first inRange rs t r h
    unfold parseClass.go at h
    split at h
    · cases h
    · next heq =>
      simp only [List.cons.injEq] at heq; obtain ⟨_, rfl⟩ := heq
      split at h
      · have := ih _ _ _ _ _ h; simp; omega
      · simp only [Option.some.injEq, Prod.mk.injEq] at h; obtain ⟨_, rfl⟩ := h; simp
    · next heq =>
      simp only [List.cons.injEq] at heq; obtain ⟨_, rfl⟩ := heq
      split at h
      · have := ih _ _ _ _ _ h; simp; omega
      · split at h
        · split at h
          · have := ih _ _ _ _ _ h; simp; omega
          · cases h
        · have := ih _ _ _ _ _ h; simp; omega
    · next heq =>
      simp only [List.cons.injEq] at heq; obtain ⟨_, rfl⟩ := heq
      split at h
      · split at h
        · split at h
          · cases h
          · have := ih _ _ _ _ _ h; simp; omega
        · cases h
      · have := ih _ _ _ _ _ h; simp; omega

theorem parseClass_shorter (cs : List Char) (t : Tok) (r : List Char) (h : parseClass cs = some (t, r)) : r.length < cs.length + 1 := by
  unfold parseClass at h
  simp only [] at h
  split at h <;>
    (have := parseClass_go_shorter _ _ _ _ _ _ _ h; simp only [List.length_cons] at this ⊢; omega)

/-- one unit of fuel more than the length is already more than the loop ever uses … -/
theorem parseGo_fuel_succ : ∀ (fuel : Nat) (prev : Option Char) (acc : List Tok) (cs : List Char), cs.length < fuel →
    parseGo (fuel + 1) prev acc cs = parseGo fuel prev acc cs := by
  intro fuel
  induction fuel with
  | zero => intro prev acc cs h; omega
  | succ n ih =>
    intro prev acc cs h
    conv => lhs; unfold parseGo
    conv => rhs; unfold parseGo
    repeat' split
    all_goals first
      | rfl
      | (apply ih; simp only [List.length_cons, List.length_nil] at *; omega)
      | (apply ih; have := parseClass_shorter _ _ _ ‹_›; simp only [List.length_cons, List.length_nil] at *; omega)

/-- … so any two sufficient amounts of fuel give the same parse: `parse`'s `length + 1` is not a cut-off -/
theorem parseGo_fuel (cs : List Char) (prev : Option Char) (acc : List Tok) (f : Nat) (hf : cs.length < f) :
    parseGo f prev acc cs = parseGo (cs.length + 1) prev acc cs := by
  induction f with
  | zero => omega
  | succ n ih =>
    by_cases h : cs.length < n
    · rw [parseGo_fuel_succ n prev acc cs h]; exact ih h
    · have : n = cs.length := by omega
      rw [this]

/-- `x/**/*` (what the gitignore line `x/**` is turned into): the literal `x`, then `/**/`, then `*` -/
theorem parse_dir_contents (x : List Char) (hx : ∀ c ∈ x, plain c = true) :
    parse (x ++ ['/', '*', '*', '/', '*']) = some (lits x ++ [.recMid, .star]) := by
  unfold parse
  have hxs : ∀ c ∈ x ++ ['/'], plain c = true := by
    intro c hc
    rcases List.mem_append.1 hc with h | h
    · exact hx c h
    · simp only [List.mem_singleton] at h; subst h; exact plain_slash
  have h := parseGo_lits (x ++ ['/']) hxs 5 none [] ['*', '*', '/', '*']
  have e : (x ++ ['/', '*', '*', '/', '*']).length + 1 = (x ++ ['/']).length + 5 := by simp
  rw [← parseGo_fuel _ none [] (5 + (x ++ ['/']).length) (by simp only [List.length_append, List.length_cons, List.length_nil]; omega)]
  have e2 : x ++ ['/', '*', '*', '/', '*'] = (x ++ ['/']) ++ ['*', '*', '/', '*'] := by simp
  rw [e2, h]
  have hl : (x ++ ['/']).getLast? = some '/' := by simp
  simp only [hl, List.append_nil]
  have hr : (lits (x ++ ['/'])).reverse = .lit '/' :: (lits x).reverse := by simp [lits]
  rw [hr]
  conv => lhs; unfold parseGo
  simp only [List.isEmpty_cons, Bool.false_eq_true, if_false, Option.map_some, isSep, beq_self_eq_true, Option.getD_some,
    Bool.not_true, if_true]
  conv => lhs; unfold parseGo
  simp only []
  rw [parseGo_nil]
  simp [lits]

#print axioms recPrefix_lits_iff
#print axioms star_ext_iff
#print axioms dir_contents_iff
#print axioms parse_plain
#print axioms parseGo_fuel
end Sp.Glob

namespace Sp.Glob
/-! ### gitignore lines of the property's grammar: what `GitignoreBuilder::add_line` makes of them -/

/-- text without glob syntax, separators or blanks, not starting like a comment or a negation -/
structure Clean (n : List Char) : Prop where
  ne : n ≠ []
  chars : ∀ c ∈ n, plain c = true ∧ c ≠ '/' ∧ c.isWhitespace = false
  first : n.head? ≠ some '#' ∧ n.head? ≠ some '!'

theorem startsWith_cons_ne {c d : Char} {r : List Char} (h : c ≠ d) : startsWith (c :: r) [d] = false := by
  simp [startsWith, h]

theorem Clean.last {n : List Char} (h : Clean n) : ∃ l rr, n.reverse = l :: rr ∧ plain l = true ∧ l ≠ '/' ∧ l.isWhitespace = false := by
  cases hr : n.reverse with
  | nil => exact absurd (by simpa using hr) h.ne
  | cons l rr =>
    have : l ∈ n := by have : l ∈ n.reverse := by rw [hr]; exact List.mem_cons_self
                       simpa using this
    exact ⟨l, rr, rfl, h.chars l this⟩

theorem Clean.trim {n : List Char} (h : Clean n) : trimRight n = n := by
  obtain ⟨l, rr, hr, _, _, hw⟩ := h.last
  unfold trimRight
  rw [hr, List.dropWhile_cons_of_neg (by simp [hw]), ← hr, List.reverse_reverse]

theorem Clean.noEsc {n : List Char} (h : Clean n) : endsWith n ['\\', ' '] = false := by
  obtain ⟨l, rr, hr, _, _, hw⟩ := h.last
  unfold endsWith
  rw [hr]
  have : l ≠ ' ' := by intro e; subst e; simp at hw
  cases rr <;> simp [this]

theorem Clean.getLast {n : List Char} (h : Clean n) : ∃ l, n.getLast? = some l ∧ plain l = true ∧ l ≠ '/' := by
  obtain ⟨l, rr, hr, hp, hs, _⟩ := h.last
  refine ⟨l, ?_, hp, hs⟩
  rw [List.getLast?_eq_head?_reverse, hr]; rfl

theorem Clean.noSlash {n : List Char} (h : Clean n) : n.any (· == '/') = false := by
  rw [List.any_eq_false]
  intro c hc; simpa using (h.chars c hc).2.1

/-- **`name`** — a slash-free gitignore line becomes the glob `**/name`: not a negation, not directory-only -/
theorem addLine_name (n : List Char) (h : Clean n) :
    addLine n = some (some ⟨n, .recPrefix :: lits n, false, false⟩) := by
  obtain ⟨c, r, rfl⟩ : ∃ c r, n = c :: r := by
    cases n with
    | nil => exact absurd rfl h.ne
    | cons c r => exact ⟨c, r, rfl⟩
  have hc := h.chars c List.mem_cons_self
  have hpl : plain c = true := hc.1
  simp only [plain, Bool.and_eq_true, bne_iff_ne, ne_eq] at hpl
  obtain ⟨⟨⟨_, _⟩, hbs⟩, hst⟩ := hpl
  have h1 : c ≠ '#' := by have := h.first.1; simpa using this
  have h2 : c ≠ '!' := by have := h.first.2; simpa using this
  obtain ⟨l, hl, hlp, hls⟩ := h.getLast
  have hlstar : l ≠ '*' := by
    simp only [plain, Bool.and_eq_true, bne_iff_ne, ne_eq] at hlp; exact hlp.2
  have e1 : startsWith (c :: r) ['#'] = false := startsWith_cons_ne h1
  have e2 : startsWith (c :: r) ['\\', '!'] = false := by simp [startsWith, hbs]
  have e3 : startsWith (c :: r) ['\\', '#'] = false := by simp [startsWith, hbs]
  have e4 : startsWith (c :: r) ['!'] = false := startsWith_cons_ne h2
  have e5 : startsWith (c :: r) ['/'] = false := startsWith_cons_ne hc.2.1
  have e6 : startsWith (c :: r) ['*', '*', '/'] = false := by simp [startsWith, hst]
  have e7 : ((c :: r) == ['*', '*']) = false := by simp [hst]
  have e8 : endsWith ('*' :: '*' :: '/' :: c :: r) ['/', '*', '*'] = false := by
    unfold endsWith
    obtain ⟨l', rr, hr, _⟩ := h.last
    have hl' : l' = l := by
      have : (c :: r).getLast? = some l' := by rw [List.getLast?_eq_head?_reverse, hr]; rfl
      rw [hl] at this; injection this with this; exact this.symm
    have : ('*' :: '*' :: '/' :: c :: r).reverse = l' :: (rr ++ ['/', '*', '*']) := by
      simp only [List.reverse_cons] at hr ⊢
      rw [hr]; simp
    rw [this, hl']
    cases rr <;> simp [hlstar]
  unfold addLine
  simp only [e1, h.noEsc, h.trim, Bool.false_eq_true, if_false, List.isEmpty_cons, e2, e3, Bool.or_self, e4, e5, hl,
    h.noSlash, Bool.not_false, Bool.and_self, if_true, e6, e7, e8]
  have hls' : (some l == some '/') = false := by simp [hls]
  simp only [hls', Bool.false_eq_true, if_false, List.cons_append, List.nil_append, e8]
  rw [parse_recPrefix_plain (c :: r) (fun d hd => (h.chars d hd).1)]

#print axioms addLine_name
end Sp.Glob
