import Wx.Glob.GlobPath
/-! `name_ignores_iff`, generalised: any glob whose verdict depends on the LAST component only (what every slash-free gitignore line
    compiles to: `name`, `*.ext`) ignores exactly the paths having a component it accepts. Instances: `name`, `*.ext`. -/
namespace Sp.Glob

/-- a plain (not negated, not directories-only) glob that looks at the last component of the candidate only -/
structure LastComp (g : GGlob) (P : List Char → Prop) : Prop where
  plain : g.isWhitelist = false ∧ g.isOnlyDir = false
  nil : mtch g.toks [] = false
  last : ∀ (cs : List (List Char)) (c : List Char), (∀ x ∈ cs, Comp x) → Comp c → (mtch g.toks (join (cs ++ [c])) = true ↔ P c)

/-- walking up from a path: some proper ancestor's last component satisfies `P` -/
theorem lastComp_up_iff (g : GGlob) (P : List Char → Prop) (hg : LastComp g P) : ∀ (cs : List (List Char)) (fuel : Nat), (∀ x ∈ cs, Comp x) → cs.length ≤ fuel →
    (matchedOrParents.up [g] fuel (join cs) ≠ .none ↔ ∃ c ∈ cs.dropLast, P c) := by
  intro cs0
  -- induction on the number of components, peeling the last one off
  generalize hlen0 : cs0.length = k
  induction k generalizing cs0 with
  | zero =>
    have : cs0 = [] := List.eq_nil_of_length_eq_zero hlen0
    subst this
    intro fuel _ _
    cases fuel with
    | zero => simp [matchedOrParents.up]
    | succ f => simp [matchedOrParents.up, join, parentOf_nil]
  | succ k ih0 =>
    have hne0 : cs0 ≠ [] := by intro e; rw [e] at hlen0; simp at hlen0
    obtain ⟨cs, c, rfl⟩ : ∃ cs c, cs0 = cs ++ [c] := ⟨cs0.dropLast, cs0.getLast hne0, (List.dropLast_concat_getLast hne0).symm⟩
    have hk : cs.length = k := by simp at hlen0; omega
    have ih := fun fuel h1 h2 => ih0 cs hk fuel h1 h2
    intro fuel hc hf
    have hcs : ∀ x ∈ cs, Comp x := fun x hx => hc x (by simp [hx])
    have hcc : Comp c := hc c (by simp)
    cases fuel with
    | zero => simp at hf
    | succ f =>
      have hf' : cs.length ≤ f := by simp at hf; omega
      simp only [List.dropLast_concat]
      by_cases hi : cs = []
      · subst hi
        simp only [List.nil_append, join, matchedOrParents.up, parentOf_single c hcc]
        rw [matchedStripped_single _ hg.plain.1 hg.plain.2]
        have : mtch g.toks [] = false := hg.nil
        simp only [this, Bool.false_eq_true, if_false]
        have h0 : matchedOrParents.up [g] f [] = .none := by
          cases f <;> simp [matchedOrParents.up, parentOf_nil]
        simp [h0]
      · simp only [matchedOrParents.up, parentOf_join_snoc cs c hi hcs hcc]
        rw [matchedStripped_single _ hg.plain.1 hg.plain.2]
        obtain ⟨init, last, rfl⟩ : ∃ init last, cs = init ++ [last] :=
          ⟨cs.dropLast, cs.getLast hi, (List.dropLast_concat_getLast hi).symm⟩
        have hm := hg.last init last (fun x hx => hcs x (by simp [hx])) (hcs last (by simp))
        by_cases hl : P last
        · have : mtch g.toks (join (init ++ [last])) = true := hm.2 hl
          simp only [this, if_true]
          constructor
          · intro _; exact ⟨last, by simp, hl⟩
          · intro _ h; cases h
        · have : mtch g.toks (join (init ++ [last])) = false := by
            cases h : mtch g.toks (join (init ++ [last])) with
            | false => rfl
            | true => exact absurd (hm.1 h) hl
          simp only [this, Bool.false_eq_true, if_false]
          rw [ih f hcs (by rw [← hk]; exact hf')]
          simp only [List.dropLast_concat]
          constructor
          · rintro ⟨x, hx, hp⟩; exact ⟨x, by simp [hx], hp⟩
          · rintro ⟨x, hx, hp⟩
            rcases List.mem_append.1 hx with hx | hx
            · exact ⟨x, hx, hp⟩
            · simp only [List.mem_singleton] at hx; subst hx; exact absurd hp hl

/-- **a glob that looks at the last component only** ignores exactly the paths that have a component it accepts: the path
    itself or a directory above it (`matched_path_or_any_parents`) -/
theorem lastComp_ignores_iff (g : GGlob) (P : List Char → Prop) (hg : LastComp g P) (root path : List Char) (cs : List (List Char)) (hne : cs ≠ []) (hcs : ∀ x ∈ cs, Comp x)
    (hstrip : strip root path = join cs) (isDir : Bool) :
    matchedOrParents root [g] path isDir ≠ .none ↔ ∃ c ∈ cs, P c := by
  unfold matchedOrParents
  simp only [List.isEmpty_cons, Bool.false_eq_true, if_false, hstrip]
  rw [matchedStripped_single _ hg.plain.1 hg.plain.2]
  obtain ⟨init, last, rfl⟩ : ∃ init last, cs = init ++ [last] := ⟨cs.dropLast, cs.getLast hne, (List.dropLast_concat_getLast hne).symm⟩
  have hm := hg.last init last (fun x hx => hcs x (by simp [hx])) (hcs last (by simp))
  by_cases hl : P last
  · have : mtch g.toks (join (init ++ [last])) = true := hm.2 hl
    simp only [this, if_true]
    constructor
    · intro _; exact ⟨last, by simp, hl⟩
    · intro _ h; cases h
  · have : mtch g.toks (join (init ++ [last])) = false := by
      cases h : mtch g.toks (join (init ++ [last])) with
      | false => rfl
      | true => exact absurd (hm.1 h) hl
    simp only [this, Bool.false_eq_true, if_false]
    have hlen : (init ++ [last]).length ≤ (join (init ++ [last])).length := by
      have : ∀ (l : List (List Char)), (∀ x ∈ l, Comp x) → l.length ≤ (join l).length := by
        intro l hl
        induction l with
        | nil => simp [join]
        | cons a l ih =>
          have ha := (hl a List.mem_cons_self).1
          have hal : 1 ≤ a.length := by cases a with | nil => exact absurd rfl ha | cons _ _ => simp
          cases l with
          | nil => simpa [join] using hal
          | cons b l =>
            have := ih (fun x hx => hl x (List.mem_cons_of_mem _ hx))
            simp only [join, List.length_cons, List.length_append] at this ⊢
            omega
      exact this _ hcs
    rw [lastComp_up_iff g P hg (init ++ [last]) _ hcs hlen]
    simp only [List.dropLast_concat]
    constructor
    · rintro ⟨x, hx, hp⟩; exact ⟨x, by simp [hx], hp⟩
    · rintro ⟨x, hx, hp⟩
      rcases List.mem_append.1 hx with hx | hx
      · exact ⟨x, hx, hp⟩
      · simp only [List.mem_singleton] at hx; subst hx; exact absurd hp hl


/-- the glob of the line `name` looks at the last component only -/
theorem nameGlob_lastComp (orig n : List Char) (hn : Clean n) : LastComp (nameGlob orig n) (fun c => c = n) where
  plain := ⟨rfl, rfl⟩
  nil := by
    have := (name_matches n [] hn)
    cases hm : mtch (Tok.recPrefix :: lits n) [] with
    | false => exact hm
    | true =>
      rcases this.1 hm with h | ⟨pre, h⟩
      · exact absurd h.symm hn.ne
      · have := congrArg List.length h; simp at this
  last := fun cs c hcs hc => mtch_name_join n hn cs c hcs hc

/-- the glob of the line `*.ext` -/
def extGlob (orig e : List Char) : GGlob := ⟨orig, .recPrefix :: .star :: lits ('.' :: e), false, false⟩

/-- the slash-free tail behind the last slash is unique -/
theorem tail_unique (a b u v : List Char) (hu : ∀ x ∈ u, x ≠ '/') (hv : ∀ x ∈ v, x ≠ '/') (e : a ++ '/' :: u = b ++ '/' :: v) : u = v := by
  have e' := congrArg List.reverse e
  simp only [List.reverse_append, List.reverse_cons, List.append_assoc, List.singleton_append] at e'
  have t1 := congrArg (List.takeWhile (· != '/')) e'
  have tw : ∀ (l rest : List Char), (∀ x ∈ l, x ≠ '/') → (l ++ '/' :: rest).takeWhile (· != '/') = l := by
    intro l rest hl
    induction l with
    | nil => simp
    | cons x l ih =>
      have hx := hl x List.mem_cons_self
      simp only [List.cons_append]
      rw [List.takeWhile_cons_of_pos (by simpa using hx), ih (fun y hy => hl y (List.mem_cons_of_mem _ hy))]
  rw [tw u.reverse _ (fun x hx => hu x (by simpa using hx)), tw v.reverse _ (fun x hx => hv x (by simpa using hx))] at t1
  simpa using congrArg List.reverse t1

theorem extGlob_lastComp (orig e : List Char) (he : Clean e) : LastComp (extGlob orig e) (fun c => ∃ stem, c = stem ++ '.' :: e) where
  plain := ⟨rfl, rfl⟩
  nil := by
    cases hm : mtch (extGlob orig e).toks [] with
    | false => rfl
    | true =>
      obtain ⟨pre, stem, h | h, _⟩ := (star_ext_matches e []).1 hm
      · have := congrArg List.length h; simp at this
      · have := congrArg List.length h; simp at this
  last := by
    intro cs c hcs hc
    have hec : ∀ x ∈ '.' :: e, x ≠ '/' := by
      intro x hx; rcases List.mem_cons.1 hx with rfl | hx
      · decide
      · exact (he.chars x hx).2.1
    show mtch (Tok.recPrefix :: Tok.star :: lits ('.' :: e)) (join (cs ++ [c])) = true ↔ _
    rw [star_ext_matches]
    by_cases hi : cs = []
    · subst hi
      simp only [List.nil_append, join]
      constructor
      · rintro ⟨pre, stem, h | h, _⟩
        · exact ⟨stem, h⟩
        · exact absurd (h ▸ (by simp : '/' ∈ pre ++ '/' :: (stem ++ '.' :: e))) (fun hm => hc.2 '/' hm rfl)
      · rintro ⟨stem, rfl⟩
        exact ⟨[], stem, Or.inl rfl, fun x hx => hc.2 x (by simp [hx])⟩
    · rw [join_snoc cs c hi]
      constructor
      · rintro ⟨pre, stem, h | h, hst⟩
        · exfalso
          have : '/' ∈ stem ++ '.' :: e := h ▸ (by simp : '/' ∈ join cs ++ '/' :: c)
          rcases List.mem_append.1 this with hm | hm
          · exact hst '/' hm rfl
          · exact hec '/' hm rfl
        · have hfree : ∀ x ∈ stem ++ '.' :: e, x ≠ '/' := by
            intro x hx; rcases List.mem_append.1 hx with hx | hx
            · exact hst x hx
            · exact hec x hx
          exact ⟨stem, tail_unique _ _ _ _ hc.2 hfree h⟩
      · rintro ⟨stem, rfl⟩
        exact ⟨join cs, stem, Or.inr rfl, fun x hx => hc.2 x (by simp [hx])⟩

/-- **the line `*.ext`** ignores exactly the paths that have a component ending in `.ext` — a file `a/b.ext`, and also
    everything below a directory `x.ext/` — for every extension and every path -/
theorem ext_ignores_iff (e orig root path : List Char) (he : Clean e) (cs : List (List Char)) (hne : cs ≠ []) (hcs : ∀ x ∈ cs, Comp x)
    (hstrip : strip root path = join cs) (isDir : Bool) :
    matchedOrParents root [extGlob orig e] path isDir ≠ .none ↔ ∃ c ∈ cs, ∃ stem, c = stem ++ '.' :: e :=
  lastComp_ignores_iff (extGlob orig e) _ (extGlob_lastComp orig e he) root path cs hne hcs hstrip isDir

/-- `extGlob` is what `add_line` makes of the line `*.ext` -/
theorem addLine_is_extGlob (e : List Char) (he : Clean e) : addLine ('*' :: '.' :: e) = some (some (extGlob ('*' :: '.' :: e) e)) := by
  have := addLine_star_ext false false e he
  simpa [extGlob] using this

#print axioms ext_ignores_iff
#print axioms lastComp_ignores_iff
end Sp.Glob
