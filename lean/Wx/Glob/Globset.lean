import Wx.Glob.IgnoreFilterC
/-! Spike: watchexec-filterer-globset check_event (+ the ignore-files layer). -/
namespace Sp.GS
open Sp.IF Sp.Glob

structure PTag where
  path : Str
  isDir : Bool
  deriving Repr

structure GF where
  origin : Str
  filters : List GGlob
  ignores : List GGlob
  whitelist : List Str
  igf : Filter
  exts : List Str
  deriving Repr

/-- IgnoreFilterer::check_event -/
def igfCheck (f : Filter) (paths : List PTag) : Bool :=
  paths.foldl (fun pass p =>
    match f.matchFix p.path p.isDir with
    | .none => pass
    | .ignore _ fr => if compPrefix fr p.path then false else pass
    | .whitelist _ _ => true) true

/-- std::path::Path::extension -/
def extension (path : Str) : Option Str :=
  match (splitComps path).getLast? with
  | none => none
  | some name =>
    if name == ['.', '.'] then none else
    let r := name.reverse
    let after := (r.takeWhile (· != '.')).reverse
    let rest := r.dropWhile (· != '.')
    match rest with
    | [] => none                      -- no dot
    | _ :: before => if before.isEmpty then none else some after

def isIgnore : M → Bool | .ignore _ => true | _ => false

def checkEvent (g : GF) (paths : List PTag) : Bool :=
  if paths.any (fun p => g.whitelist.any (fun w => splitComps w == splitComps p.path)) then true else
  if !igfCheck g.igf paths then false else
  if paths.isEmpty then true else
  paths.any (fun p =>
    if isIgnore (matched g.origin g.ignores p.path p.isDir) then false else
    let numF := (g.filters.filter (!·.isWhitelist)).length
    let viaFilter :=
      numF > 0 && (isIgnore (matched g.origin g.filters p.path p.isDir) ||
        (compPrefix g.origin p.path &&
          -- 1.x compat: origin ++ "//" ++ path relative to origin
          let based := (splitComps p.path).drop (splitComps g.origin).length
          let rebased := g.origin ++ ['/', '/'] ++ (String.intercalate "/" (based.map String.ofList)).toList
          isIgnore (matched g.origin g.filters rebased p.isDir)))
    if viaFilter then true else
    let filtered := numF > 0 || !g.exts.isEmpty
    if !g.exts.isEmpty then
      if p.isDir then false else
      match extension p.path with
      | some e => if g.exts.contains e then true else !filtered
      | none => false
    else !filtered)

end Sp.GS
