import Wx.Glob.Prefix
/-! Spike: the repaired `match_path` loop equals nearest-component-ancestor-first evaluation.
    Parametric in the per-node verdict `ev`. -/
namespace Sp.C03
open Sp.Pfx

variable {V : Type}

/-- a node = its key (the directory it applies in; [] is the global node "/") -/
abbrev Key := CPath

/-- radix-trie `get_ancestor`: a longest key whose display body is a STRING prefix of `σ` -/
def ancestor (keys : List Key) (σ : List Char) : Option Key :=
  keys.foldl (fun best k =>
    if body k <+: σ then
      match best with
      | some b => if (body b).length < (body k).length then some k else best
      | none => some k
    else best) none

instance (a b : List Char) : Decidable (a <+: b) := by
  exact decidable_of_iff (a.isPrefixOf b = true) (by simp)

/-- the repaired loop: consult a node only if its key is a component-wise ancestor of the probe -/
def go (keys : List Key) (ev : Key → Option V) (p : CPath) : Nat → List Char → Option V
  | 0, _ => none
  | fuel + 1, σ =>
    match ancestor keys σ with
    | none => none
    | some k =>
      let r := if k <+: p then ev k else none
      match r with
      | some v => some v
      | none => if k = [] then none else go keys ev p fuel (body k.dropLast)

/-- spec: the component-wise ancestors of `p` among the keys, nearest (longest) first -/
def specFrom (keys : List Key) (ev : Key → Option V) (p : CPath) : Nat → Option V
  | 0 => if [] ∈ keys then ev [] else none
  | n + 1 =>
    let k := p.take (n + 1)
    if k.length = n + 1 ∧ k ∈ keys then
      match ev k with
      | some v => some v
      | none => specFrom keys ev p n
    else specFrom keys ev p n

def spec (keys : List Key) (ev : Key → Option V) (p : CPath) : Option V := specFrom keys ev p p.length

/-! ### facts about `ancestor` -/

theorem ancestor_spec (keys : List Key) (σ : List Char) :
    match ancestor keys σ with
    | some k => k ∈ keys ∧ body k <+: σ ∧ ∀ k' ∈ keys, body k' <+: σ → (body k').length ≤ (body k).length
    | none => ∀ k' ∈ keys, ¬ body k' <+: σ := by
  unfold ancestor
  -- generalise over the accumulator
  have key : ∀ (l done : List Key) (best : Option Key),
      (match best with
        | some b => b ∈ done ∧ body b <+: σ ∧ ∀ k' ∈ done, body k' <+: σ → (body k').length ≤ (body b).length
        | none => ∀ k' ∈ done, ¬ body k' <+: σ) →
      (match l.foldl (fun best k =>
          if body k <+: σ then
            match best with
            | some b => if (body b).length < (body k).length then some k else best
            | none => some k
          else best) best with
        | some b => b ∈ done ++ l ∧ body b <+: σ ∧ ∀ k' ∈ done ++ l, body k' <+: σ → (body k').length ≤ (body b).length
        | none => ∀ k' ∈ done ++ l, ¬ body k' <+: σ) := by
    intro l
    induction l with
    | nil => intro done best h; simpa using h
    | cons a l ih =>
      intro done best h
      simp only [List.foldl_cons]
      have := ih (done ++ [a])
      simp only [List.append_assoc, List.singleton_append] at this
      apply this
      by_cases ha : body a <+: σ
      · simp only [ha, if_true]
        cases best with
        | none =>
          simp only [] at h ⊢
          refine ⟨by simp, ha, ?_⟩
          intro k' hk' hk'σ
          rcases List.mem_append.mp hk' with hk' | hk'
          · exact absurd hk'σ (h k' hk')
          · simp at hk'; subst hk'; exact Nat.le_refl _
        | some b =>
          simp only [] at h ⊢
          obtain ⟨hb, hbσ, hmax⟩ := h
          by_cases hlt : (body b).length < (body a).length
          · simp only [hlt, if_true]
            refine ⟨by simp, ha, ?_⟩
            intro k' hk' hk'σ
            rcases List.mem_append.mp hk' with hk' | hk'
            · exact Nat.le_of_lt (Nat.lt_of_le_of_lt (hmax k' hk' hk'σ) hlt)
            · simp at hk'; subst hk'; exact Nat.le_refl _
          · simp only [hlt, if_false]
            refine ⟨List.mem_append_left _ hb, hbσ, ?_⟩
            intro k' hk' hk'σ
            rcases List.mem_append.mp hk' with hk' | hk'
            · exact hmax k' hk' hk'σ
            · simp at hk'; subst hk'; exact Nat.le_of_not_lt hlt
      · simp only [ha, if_false]
        cases best with
        | none =>
          simp only [] at h ⊢
          intro k' hk'
          rcases List.mem_append.mp hk' with hk' | hk'
          · exact h k' hk'
          · simp at hk'; subst hk'; exact ha
        | some b =>
          simp only [] at h ⊢
          obtain ⟨hb, hbσ, hmax⟩ := h
          refine ⟨List.mem_append_left _ hb, hbσ, ?_⟩
          intro k' hk' hk'σ
          rcases List.mem_append.mp hk' with hk' | hk'
          · exact hmax k' hk' hk'σ
          · simp at hk'; subst hk'; exact absurd hk'σ ha
  have := key keys [] none (by simp)
  simpa using this

/-! ### lengths -/

theorem body_length_append (a b : CPath) : (body (a ++ b)).length = (body a).length + (body b).length := by
  rw [body_append, List.length_append]

theorem body_length_cons (c : Comp) (r : CPath) : (body (c :: r)).length = 1 + c.length + (body r).length := by
  simp [body, List.length_append]; omega

theorem prefix_length_le {α} {a b : List α} (h : a <+: b) : a.length ≤ b.length := by
  obtain ⟨t, rfl⟩ := h; simp

theorem prefix_eq_of_length {α} {a b : List α} (h : a <+: b) (hl : b.length ≤ a.length) : a = b := by
  obtain ⟨t, rfl⟩ := h
  simp at hl
  have : t = [] := List.eq_nil_of_length_eq_zero (by omega)
  subst this; simp

/-- `take` of a path: comp-prefix, and its body is a string prefix -/
theorem take_prefix (p : CPath) (n : Nat) : p.take n <+: p := List.take_prefix n p

theorem okPath_take {p : CPath} (hp : okPath p) (n : Nat) : okPath (p.take n) :=
  fun c hc => hp c (List.mem_of_mem_take hc)

theorem body_take_mono (p : CPath) {i j : Nat} (h : i ≤ j) : body (p.take i) <+: body (p.take j) := by
  apply body_prefix_of_prefix
  exact List.take_prefix_take_left h

theorem body_nonempty {q : CPath} (h : q ≠ []) : 0 < (body q).length := by
  cases q with
  | nil => exact absurd rfl h
  | cons c r => rw [body_length_cons]; omega

theorem body_take_lt {p : CPath} {i j : Nat} (hij : i < j) (hj : j ≤ p.length) :
    (body (p.take i)).length < (body (p.take j)).length := by
  have : p.take j = p.take i ++ (p.take j).drop i := by
    have h1 : (p.take j).take i = p.take i := by rw [List.take_take]; congr 1; omega
    rw [← h1]; exact (List.take_append_drop i (p.take j)).symm
  rw [this, body_length_append]
  have hne : (p.take j).drop i ≠ [] := by
    intro h
    have := congrArg List.length h
    simp [List.length_drop, List.length_take] at this
    omega
  have := body_nonempty hne
  omega

theorem prefix_eq_take {k p : CPath} (h : k <+: p) : k = p.take k.length := by
  obtain ⟨t, rfl⟩ := h; simp

/-- skipping levels that hold no key -/
theorem specFrom_skip (keys : List Key) (ev : Key → Option V) (p : CPath) (m : Nat) :
    ∀ n, m ≤ n → (∀ i, m < i → i ≤ n → ¬ ((p.take i).length = i ∧ p.take i ∈ keys)) →
      specFrom keys ev p n = specFrom keys ev p m := by
  intro n hmn
  induction n with
  | zero => intro _; have : m = 0 := by omega
            subst this; rfl
  | succ n ih =>
    intro hno
    by_cases hm : m = n + 1
    · subst hm; rfl
    · have hmn' : m ≤ n := by omega
      have h1 := hno (n + 1) (by omega) (Nat.le_refl _)
      rw [specFrom]
      simp only [h1, if_false]
      exact ih hmn' (fun i hi hin => hno i hi (by omega))

/-- the main lemma: from the display of the `n`-component prefix of `p`, the repaired loop computes the
    spec restricted to levels `≤ n` -/
theorem go_take (keys : List Key) (ev : Key → Option V) (p : CPath)
    (hok : ∀ k ∈ keys, okPath k) (hp : okPath p) :
    ∀ n, n ≤ p.length → ∀ fuel, n + 1 ≤ fuel →
      go keys ev p fuel (body (p.take n)) = specFrom keys ev p n := by
  intro n
  induction n using Nat.strongRecOn with
  | _ n ih =>
    intro hn fuel hfuel
    obtain ⟨fuel, rfl⟩ : ∃ f, fuel = f + 1 := ⟨fuel - 1, by omega⟩
    have hs := ancestor_spec keys (body (p.take n))
    rw [go]
    cases hanc : ancestor keys (body (p.take n)) with
    | none =>
      simp only [hanc] at hs ⊢
      -- no key at any level ≤ n
      have hnone : ∀ i, i ≤ n → ¬ ((p.take i).length = i ∧ p.take i ∈ keys) := by
        intro i hi ⟨_, hk⟩
        exact hs _ hk (body_take_mono p hi)
      have h0 : specFrom keys ev p 0 = none := by
        have := hnone 0 (Nat.zero_le _)
        simp only [List.take_zero, List.length_nil, true_and] at this
        simp [specFrom, this]
      rw [specFrom_skip keys ev p 0 n (Nat.zero_le _) (fun i _ hi => hnone i hi), h0]
    | some k =>
      simp only [hanc] at hs ⊢
      obtain ⟨hk, hkσ, hmax⟩ := hs
      by_cases hkp : k <+: p
      · -- a genuine component ancestor: it is the nearest one not yet consulted
        have hkt := prefix_eq_take hkp
        have hjn : k.length ≤ n := by
          apply Nat.le_of_not_lt
          intro hlt
          have hkl : k.length ≤ p.length := prefix_length_le hkp
          have := body_take_lt (p := p) hlt hkl
          rw [← hkt] at this
          have := prefix_length_le hkσ
          omega
        have hskip : specFrom keys ev p n = specFrom keys ev p k.length := by
          apply specFrom_skip keys ev p k.length n hjn
          intro i hi hin ⟨hil, hik⟩
          have h1 := hmax _ hik (body_take_mono p hin)
          have h2 := body_take_lt (p := p) hi (by rw [← hil]; exact List.length_take_le' _ _)
          rw [← hkt] at h2
          omega
        rw [hskip]
        simp only [hkp, if_true]
        cases hkl : k.length with
        | zero =>
          have hk0 : k = [] := List.eq_nil_of_length_eq_zero hkl
          subst hk0
          simp only [specFrom, hk, if_true]
          cases ev [] <;> simp
        | succ j =>
          have hkne : k ≠ [] := by intro h; rw [h] at hkl; simp at hkl
          have htk : p.take (j + 1) = k := by rw [← hkl]; exact hkt.symm
          rw [specFrom]
          simp only [htk, hkl, hk, and_self, if_true]
          cases hev : ev k with
          | some v => rfl
          | none =>
            simp only [hkne, if_false]
            have hdl : k.dropLast = p.take j := by
              rw [← htk, List.dropLast_eq_take, List.take_take]
              congr 1
              have : (p.take (j + 1)).length = j + 1 := by rw [htk]; exact hkl
              omega
            rw [hdl]
            exact ih j (by omega) (by omega) fuel (by omega)
      · -- a string-prefix sibling: skip it, nothing between its parent and level n is a key
        simp only [hkp, if_false]
        have hkne : k ≠ [] := by intro h; exact hkp (h ▸ List.nil_prefix)
        simp only [hkne, if_false]
        obtain ⟨k0, c, c', rest, hk_eq, hs_eq, hcc⟩ :=
          body_prefix_shape (hok k hk) (okPath_take hp n) hkne hkσ
        have hk0p : k0 <+: p := (List.prefix_append k0 _).trans (hs_eq ▸ take_prefix p n)
        have hk0t := prefix_eq_take hk0p
        have hm : k0.length < n := by
          have := congrArg List.length hs_eq
          simp [List.length_take] at this
          omega
        have hne : c ≠ c' := by
          intro h; subst h
          apply hkp
          rw [hk_eq]
          have : k0 ++ [c] <+: p.take n := by rw [hs_eq]; exact ⟨rest, by simp⟩
          exact this.trans (take_prefix p n)
        have hclt : c.length < c'.length := by
          have := prefix_length_le hcc
          rcases Nat.lt_or_ge c.length c'.length with h | h
          · exact h
          · exact absurd (prefix_eq_of_length hcc h) hne
        have hdl : k.dropLast = p.take k0.length := by rw [hk_eq, List.dropLast_concat]; exact hk0t
        rw [hdl]
        have hskip : specFrom keys ev p n = specFrom keys ev p k0.length := by
          apply specFrom_skip keys ev p k0.length n (by omega)
          intro i hi hin ⟨hil, hik⟩
          have h1 := hmax _ hik (body_take_mono p hin)
          -- p.take i extends k0 ++ [c'], whose body is longer than k's
          have hpre : k0 ++ [c'] <+: p.take i := by
            have h2 : p.take i <+: p.take n := List.take_prefix_take_left hin
            have h3 : k0 ++ [c'] <+: p.take n := by rw [hs_eq]; exact ⟨rest, by simp⟩
            have hlen : (k0 ++ [c']).length ≤ (p.take i).length := by rw [hil]; simp; omega
            exact List.prefix_of_prefix_length_le h3 h2 hlen
          have h4 := prefix_length_le (body_prefix_of_prefix hpre)
          rw [body_length_append, body_length_cons] at h4
          rw [hk_eq, body_length_append, body_length_cons] at h1
          simp [body] at h1 h4
          omega
        rw [hskip]
        exact ih k0.length hm (by omega) fuel (by omega)

/-- **C03 core (repaired lookup)**: the loop over string-prefix trie nodes, with the component check,
    equals nearest-component-ancestor-first evaluation — for every key set, probe and verdict function. -/
theorem go_eq_spec (keys : List Key) (ev : Key → Option V) (p : CPath)
    (hok : ∀ k ∈ keys, okPath k) (hp : okPath p) :
    go keys ev p (p.length + 1) (body p) = spec keys ev p := by
  have := go_take keys ev p hok hp p.length (Nat.le_refl _) (p.length + 1) (Nat.le_refl _)
  rw [List.take_length] at this
  exact this

/-- the loop as it is today: no component check (F12) -/
def goOld (keys : List Key) (ev : Key → Option V) : Nat → List Char → Option V
  | 0, _ => none
  | fuel + 1, σ =>
    match ancestor keys σ with
    | none => none
    | some k =>
      match ev k with
      | some v => some v
      | none => if k = [] then none else goOld keys ev fuel (body k.dropLast)

/-- witness: an ignore file in `/o/test` decides a path in `/o/tests` -/
theorem goOld_ne_spec :
    let keys : List Key := [[], ["o".toList], ["o".toList, "test".toList]]
    let ev : Key → Option Nat := fun k => if k = ["o".toList, "test".toList] then some 1 else if k = ["o".toList] then some 0 else none
    let p : CPath := ["o".toList, "tests".toList, "f".toList]
    goOld keys ev (p.length + 1) (body p) = some 1 ∧ spec keys ev p = some 0 := by
  decide

/-- scoping corollary: verdict functions that agree on the component ancestors of `p` give the same result -/
theorem spec_congr (keys : List Key) (ev ev' : Key → Option V) (p : CPath)
    (h : ∀ k, k <+: p → ev k = ev' k) : spec keys ev p = spec keys ev' p := by
  unfold spec
  have : ∀ n, specFrom keys ev p n = specFrom keys ev' p n := by
    intro n
    induction n with
    | zero => simp only [specFrom]; rw [h [] List.nil_prefix]
    | succ n ih =>
      simp only [specFrom]
      rw [h (p.take (n + 1)) (take_prefix p _), ih]
  exact this _

#print axioms go_eq_spec
end Sp.C03
namespace Sp.C03
open Sp.Pfx
variable {V : Type}

/-- scoping in the key set: only keys that are component ancestors of the probe matter -/
theorem spec_keys_congr (keys keys' : List Key) (ev : Key → Option V) (p : CPath)
    (h : ∀ k, k <+: p → (k ∈ keys ↔ k ∈ keys')) : spec keys ev p = spec keys' ev p := by
  unfold spec
  have : ∀ n, specFrom keys ev p n = specFrom keys' ev p n := by
    intro n
    induction n with
    | zero =>
      simp only [specFrom]
      have := h [] List.nil_prefix
      by_cases h1 : ([] : Key) ∈ keys
      · simp [h1, this.1 h1]
      · have h2 : ([] : Key) ∉ keys' := fun hx => h1 (this.2 hx)
        simp [h1, h2]
    | succ n ih =>
      simp only [specFrom]
      have := h (p.take (n + 1)) (take_prefix p _)
      by_cases h1 : p.take (n + 1) ∈ keys
      · simp only [h1, this.1 h1, ih]
      · have h2 : p.take (n + 1) ∉ keys' := fun hx => h1 (this.2 hx)
        simp only [h1, h2, and_false, if_false, ih]
  exact this _

/-- the law C14 asks of its filter (`Env'.scoping`), for the verdict "ignored by nearest ancestor":
    if `d`'s own node is not loaded, only the nodes of `d`'s proper ancestors matter -/
theorem scoping_law (L : List Key) (ev : Key → Option V) (d : CPath) (hd : d ∉ L) :
    spec L ev d = spec (L.filter (fun a => a.isPrefixOf d && a != d)) ev d := by
  apply spec_keys_congr
  intro k hk
  simp only [List.mem_filter, Bool.and_eq_true, List.isPrefixOf_iff_prefix, bne_iff_ne, ne_eq]
  constructor
  · intro hin
    exact ⟨hin, hk, fun he => hd (he ▸ hin)⟩
  · rintro ⟨hin, _, _⟩; exact hin

#print axioms scoping_law
end Sp.C03
