import Wx.Driver.Glob
import Wx.Driver.Job
import Wx.Driver.Fs
import Wx.Driver.Pure
import Wx.Driver.Tables
import Wx.Driver.Err
import Wx.Driver.CliAction
import Wx.Driver.Flags
import Wx.Driver.Throttle
import Wx.Driver.Reconf
import Wx.Driver.FsReal
import Wx.Driver.Kbd
import Wx.Driver.Reg
import Wx.Driver.Span
/-! one line in, one line out; `wxdriver <stream> [none|all]` -/

partial def loop (f : String → String) (h : IO.FS.Stream) : IO Unit := do
  let line ← h.getLine
  if line.isEmpty then return ()
  IO.println (f (line.dropEndWhile (· == '\n')).toString)
  loop f h

def main (args : List String) : IO UInt32 := do
  let cfg := args.getD 1 "none"
  let stdin ← IO.getStdin
  match args.headD "" with
  | "glob" => loop Wx.Driver.Glob.handleLine stdin; return 0
  | "tables" => loop Wx.Driver.Tables.handleLine stdin; return 0
  | "err" => loop Wx.Driver.Err.handleLine stdin; return 0
  | "throttle" => loop Wx.Driver.Throttle.handleLine stdin; return 0
  | "flags" => loop Wx.Driver.Flags.handleLine stdin; return 0
  | "cli" => loop Wx.Driver.CliAction.handleLine stdin; return 0
  | "pure" => loop Wx.Driver.Pure.handleLine stdin; return 0
  | "job" => loop (Wx.Driver.Job.handleLine (Wx.Driver.Job.cfgOf cfg)) stdin; return 0
  | "fsreal" => loop Wx.Driver.FsReal.handleLine stdin; return 0
  | "span" => loop Wx.Driver.Span.handleLine stdin; return 0
  | "reg" => loop Wx.Driver.Reg.handleLine stdin; return 0
  | "kbd" => loop Wx.Driver.Kbd.handleLine stdin; return 0
  | "reconf" => loop Wx.Driver.Reconf.handleLine stdin; return 0
  | "jobf" => loop (Wx.Driver.Job.handleLineF (Wx.Driver.Job.cfgOf cfg)) stdin; return 0
  | "fs" => loop (Wx.Driver.Fs.handleLine (if cfg == "all" then (⟨true, true⟩ : Fw.Fixes) else {})) stdin; return 0
  | _ => IO.eprintln "usage: wxdriver glob|pure|job|fs [none|all]"; return 2
